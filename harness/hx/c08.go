package hx

import (
	"errors"
	"strconv"
	"strings"

	"github.com/hneemann/parser2/funcGen"
	"github.com/hneemann/parser2/value"
	"verifharness/sym"
)

// C08 — laziness: short-circuit consumers demand only the prefix they need.
//
// Job = "<bound>|<program>": the program uses cnt(x) (a counting host function)
// inside its stage closures, the arguments n (source length, symbolic, only
// assumed > 40, so 10^11 is one of its values), k (decisive position, symbolic
// 0..6) and f (position of a failing element, symbolic 0..12).  <bound> is the
// maximal number of cnt calls as an expression over k: "1", "k+2", ...
// fail(x) raises an error at element f.
//
// Checked per path: the call count at return and again after all goroutines
// have become quiescent; no error surfaces if the failing element lies behind
// the demanded prefix; every path stays within the step budget although n is
// unbounded.

func init() {
	register(&Harness{Name: "c08", Property: "C08", Jobs: c08Jobs, Run: c08Run})
}

var c08Progs = []string{
	// source -> stage -> consumer                                          bound
	`1|numbers(n).map(x->cnt(x)).first()`,
	`1|numbers(n).map(x->cnt(x)).map(y->y+1).first()`,
	`k+1|numbers(n).map(x->cnt(x)).top(k).size()`,
	`k+2|numbers(n).map(x->cnt(x)).top(k+1).reduce((p,q)->p+q)`,
	`k+2|numbers(n).map(x->cnt(x)).present(x->x>=k)`,
	`k+2|numbers(n).map(x->cnt(x)).indexWhere(x->x>=k)`,
	`k+2|k ~ numbers(n).map(x->cnt(x))`,
	`3|try numbers(n).map(x->cnt(x)).single() catch 0`,
	`k+3|try numbers(n).map(x->cnt(x)).accept(x->x>=k).single() catch 0`,
	`k+2|numbers(n).map(x->cnt(x)).skip(k).first()`,
	`k+2|numbers(n).accept(x->cnt(x)>=k).first()`,
	`3|numbers(n).map(x->cnt(x)).combine((p,q)->p+q).first()`,
	`4|numbers(n).map(x->cnt(x)).combine3((p,q,r)->p+q+r).first()`,
	`4|numbers(n).map(x->cnt(x)).combineN(3,l->l[0]).first()`,
	`2|numbers(n).number((i,x)->cnt(x)).first()`,
	`2|(numbers(n).map(x->cnt(x))+numbers(n).map(x->cnt(x))).first()`,
	`k+2|numbers(n).map(x->cnt(x)).iir(x->x,(x,l)->x+l).present(x->x>=k)`,
	`k+3|numbers(n).map(x->cnt(x)).compact((p,q)->false).top(k).size()`,
	`k+3|numbers(n).map(x->cnt(x)).multiUse({a:l->l.first(),b:l->l.present(x->x>=k)}).b`,
	`4|numbers(n).map(x->cnt(x)).multiUse({a:l->l.first(),b:l->l.top(2).size()}).a`,
	`4|numbers(n).map(x->cnt(x)).merge(numbers(n).map(x->cnt(x)),(p,q)->p<q).first()`,
	// list ~ list: the searched-for items decide how far the pipeline is read
	`1|[] ~ numbers(n).map(x->cnt(x))`,
	`3|[0,1] ~ numbers(n).map(x->cnt(x))`,
	`k+2|[k] ~ numbers(n).map(x->cnt(x))`,
	`1/1|[] ~ numbers(n).map(x->fail(cnt(x)))`,
	// elements that are lazy pipelines themselves stay lazy on their way through stages and multiUse
	`2|numbers(n).map(i->numbers(n).map(j->cnt(j))).first().first()`,
	`3|numbers(n).map(i->numbers(n).map(j->cnt(j))).multiUse({a:l->l.first().first(),b:l->l.top(1).size()}).a`,
	`k+3|numbers(n).map(i->numbers(n).map(j->cnt(j))).multiUse({a:l->l.first().present(x->x>=k),b:l->l.top(1).size()}).a`,
	`3|try numbers(6).map(i->numbers(20).map(j->fail(cnt(j)))).multiUse({a:l->l.first().first(),b:l->l.top(2).size()}).a catch e->e`,
	`2|numbers(n).map(i->numbers(n).map(j->cnt(j))).skip(1).first().first()`,
	// cross: the second operand stays lazy, too
	`2|numbers(n).cross(numbers(n).map(y->cnt(y)),(p,q)->p+q).first()`,
	`k+2|numbers(n).map(x->cnt(x)).cross([1,2],(p,q)->p).present(x->x>=k)`,
	`0|let l=numbers(n).cross(numbers(n).map(y->cnt(y)),(p,q)->p+q); 7`,
	`0|[].cross(numbers(n).map(y->cnt(y)),(p,q)->p).size()`,
	`2/1|numbers(n).cross(numbers(n).map(y->fail(cnt(y))),(p,q)->p+q).first()`,
	// in-memory sources
	`1|[0,1,2,3,4,5,6,7].map(x->cnt(x)).first()`,
	`k+2|[0,1,2,3,4,5,6,7].map(x->cnt(x)).present(x->x>=k)`,
	`k+1|numbers(8).eval().map(x->cnt(x)).top(k).size()`,
	`1|[7,6,5,4,3].order(x->x).map(x->cnt(x)).first()`,
	`1|[7,6,5,4,3].reverse().map(x->cnt(x)).first()`,
	// building without consuming evaluates nothing
	`0|let l=numbers(n).map(x->cnt(x)).accept(x->cnt(x)>0).skip(2).top(5); 7`,
	`0|let l=[1,2,3,4,5].map(x->cnt(x)); 7`,
	`0|let l=[1,2,3].map(x->cnt(x))+[4,5].map(x->cnt(x)); let m=l.number((i,x)->cnt(x)); 7`,
	`0|let l=numbers(5).eval().map(x->cnt(x)).combine((p,q)->cnt(p)); [l].size()`,
	`0|let m={a:[1,2].map(x->cnt(x))}; m.size()`,
	// failing elements behind the decisive one do not surface
	`k+2/k+1|numbers(n).map(x->fail(cnt(x))).present(x->x>=k)`,
	`1/1|numbers(n).map(x->fail(cnt(x))).first()`,
	`k+1/k|numbers(n).map(x->fail(cnt(x))).top(k).size()`,
	`k+1/k|numbers(n).map(x->fail(cnt(x))).top(k).mapReduce(0,(s,x)->s+x)*0+k`,
	`k+1/k|k+100 ~ numbers(n).map(x->fail(cnt(x))).top(k)`,
	`k+1/k|numbers(n).map(x->fail(cnt(x))).top(k).indexWhere(x->x<0)`,
	`k+2/k+1|numbers(n).map(x->fail(cnt(x))).indexWhere(x->x>=k)`,
	// which error surfaces: the one of the decisive prefix, never the one of a later element
	`3|try numbers(n).map(x->fail(cnt(x))).single() catch e->e`,
	`k+3|try numbers(n).map(x->fail(cnt(x))).accept(x->x>=k).single() catch e->e`,
	`k+2|try numbers(n).map(x->fail(cnt(x))).skip(k).first() catch e->e`,
	`3|try numbers(n).map(x->fail(cnt(x))).combine((p,q)->p+q).first() catch e->e`,
	`4|try [0,1,2,3,4,5,6,7,8,9,10,11,12].map(x->fail(cnt(x))).multiUse({a:l->l.first(),b:l->l.top(2).size()}).a catch e->e`,
}

func c08Jobs(tier string, seed int64) []string {
	var jobs []string
	for _, p := range c08Progs {
		jobs = append(jobs, "@noleak=1,steps=1500000,paths=80,decisions=400@"+p)
	}
	return jobs
}

func c08Run(job string) {
	bound, prog, _ := strings.Cut(job, "|")
	// "<limit>/<needed>": closure calls allowed (needed elements + read-ahead) / elements the consumer needs
	bound, neededSpec, hasNeeded := strings.Cut(bound, "/")
	fg := value.New()
	n, k, f := sym.Int64("n"), sym.Int64("k"), sym.Int64("f")
	sym.Assume(n > 40)
	sym.Assume(sym.And(k >= 0, k <= 6))
	sym.Assume(sym.And(f >= 0, f <= 12))
	fg.AddStaticFunction("cnt", funcGen.Function[value.Value]{
		Func: func(st funcGen.Stack[value.Value], cs []value.Value) (value.Value, error) {
			sym.CountAdd("cnt", 1)
			return st.Get(0), nil
		}, Args: 1, IsPure: false})
	fg.AddStaticFunction("fail", funcGen.Function[value.Value]{
		Func: func(st funcGen.Stack[value.Value], cs []value.Value) (value.Value, error) {
			if x, ok := st.Get(0).(value.Int); ok && int64(x) == f {
				return nil, errFailF
			}
			return st.Get(0), nil
		}, Args: 1, IsPure: false})
	fn, _, err := fg.Generate(prog, "n", "k", "f")
	sym.Assert(err == nil, "generates")
	if err != nil {
		return
	}
	sym.Assert(sym.CountGet("cnt") == 0, "nothing-evaluated-at-generate")
	r := eval(fn, value.Int(n), value.Int(k), value.Int(f))
	sym.Assert(!r.panicked, "no-panic")
	var limit int64
	switch bound {
	case "0":
		limit = 0
	case "1":
		limit = 1
	case "2":
		limit = 2
	case "3":
		limit = 3
	case "4":
		limit = 4
	case "k+1":
		limit = k + 1
	case "k+2":
		limit = k + 2
	case "k+3":
		limit = k + 3
	default:
		panic("c08: bound " + bound)
	}
	c1 := sym.CountGet("cnt")
	sym.Note("cnt=" + strconv.FormatInt(c1, 10))
	sym.Assert(c1 <= limit, "demand-at-return")
	if strings.Contains(prog, "fail(") && strings.HasPrefix(prog, "try") {
		// the caught text tells which error surfaced
		if s, isS := r.v.(value.String); isS {
			surfaced := strings.Contains(string(s), "FAILF")
			needed := limit - 1 // elements the consumer needs; position f >= needed lies behind them
			sym.Assert(sym.Implies(f >= needed, !surfaced), "error-of-later-element-does-not-surface")
		}
	} else if strings.Contains(prog, "fail(") {
		// the failing element is at position f: behind the demanded prefix it must not surface
		behind := limit
		if hasNeeded {
			switch neededSpec {
			case "0":
				behind = 0
			case "1":
				behind = 1
			case "k":
				behind = k
			case "k+1":
				behind = k + 1
			default:
				panic("c08: needed " + neededSpec)
			}
		}
		// (the read-ahead element is evaluated, but its error is not the consumer's business)
		sym.Assert(sym.Implies(f >= behind, r.ok()), "later-error-does-not-surface")
		// inside the decisive prefix it does (the consumer evaluates it)
		if strings.Contains(prog, "present") || strings.Contains(prog, "indexWhere") {
			sym.Assert(sym.Implies(f < k, !r.ok()), "earlier-error-surfaces")
		}
	} else if !strings.HasPrefix(prog, "try") {
		sym.Assert(r.ok(), "defined")
	}
	sym.Mark("quiesce")
	c2 := sym.CountGet("cnt")
	sym.Assert(c2 <= limit, "demand-at-quiescence")
	sym.Reach("end")
}

var errFailF = errors.New("FAILF")
