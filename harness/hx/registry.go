// Package hx holds all harnesses (one file per property) and their reference models.
package hx

// A Harness is a family of jobs; each job is run symbolically by the engine
// (function Run) and natively for replay.
type Harness struct {
	Name     string
	Property string
	// Jobs lists the job strings for a tier ("quick"/"thorough") and seed.
	Jobs func(tier string, seed int64) []string
	Run  func(job string)
}

var Registry = map[string]*Harness{}

func register(h *Harness) { Registry[h.Name] = h }

// RunHarness is the engine's entry point.
func RunHarness(name, job string) {
	h := Registry[name]
	if h == nil {
		panic("unknown harness " + name)
	}
	h.Run(job)
}
