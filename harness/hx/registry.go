// Package hx holds all harnesses (one file per property) and their reference models.
package hx

// A Harness is a family of jobs; each job is run symbolically by the engine
// (function Run) and natively for replay.
type Harness struct {
	Name     string
	Property string
	// Jobs lists the job strings for a tier ("quick"/"thorough") and seed.
	Jobs func(tier string, seed int64) []string
	Run  func(job string)
}

var Registry = map[string]*Harness{}

func register(h *Harness) { Registry[h.Name] = h }

// JobOpts holds the engine-level options of the current job ("@k=v,k=v@rest").
var JobOpts = map[string]string{}

// stripOpts splits the option prefix off a job string.
func stripOpts(job string) string {
	JobOpts = map[string]string{}
	if len(job) > 0 && job[0] == '@' {
		for k := 1; k < len(job); k++ {
			if job[k] == '@' {
				for _, kv := range splitComma(job[1:k]) {
					for e := 0; e < len(kv); e++ {
						if kv[e] == '=' {
							JobOpts[kv[:e]] = kv[e+1:]
							break
						}
					}
				}
				return job[k+1:]
			}
		}
	}
	return job
}

func splitComma(s string) []string {
	var out []string
	start := 0
	for i := 0; i <= len(s); i++ {
		if i == len(s) || s[i] == ',' {
			out = append(out, s[start:i])
			start = i + 1
		}
	}
	return out
}

// RunHarness is the engine's entry point.
func RunHarness(name, job string) {
	h := Registry[name]
	if h == nil {
		panic("unknown harness " + name)
	}
	h.Run(stripOpts(job))
}
