package hx

import (
	"math"
	"strconv"
	"strings"

	"github.com/hneemann/parser2"
	"github.com/hneemann/parser2/funcGen"
	"verifharness/sym"
)

// C19 — the generic generator is correct for any value type (bounded-exhaustive).
//
// Generators are built through the public funcGen.New[bool] / New[float64] API
// exactly as example/bool.go and example/minimal.go do (keywords let/if added).
//
// Jobs:
//	bool:<n>:<batch>:<of>:<flags>   all boolean expressions with at most n operator nodes over
//	                                {a,b,c,true,false} (slice batch of `of`), a,b,c SYMBOLIC bools
//	                                (all 8 assignments in one run by path splitting); flags = which of
//	                                ^ = | & are declared commutative (bit mask)
//	float:<n>:<batch>:<of>:<flags>  float expressions over {a,b,2,0.5,4} with = < > + - * / ^, unary -,
//	                                implicit multiplication, sqr(); a,b symbolic on the grid k/16
//	forms:<type>                    let/if forms
//
// Oracle: direct evaluation of the harness's own expression tree with the
// operators' Go definitions.  Checked with the optimizer enabled and disabled.

func init() {
	register(&Harness{Name: "c19", Property: "C19", Jobs: c19Jobs, Run: c19Run})
}

func c19Jobs(tier string, seed int64) []string {
	var jobs []string
	n, of := 2, 16
	if tier == "thorough" {
		n, of = 3, 400
	}
	for b := 0; b < of; b++ {
		flags := 15
		if b%4 == 1 {
			flags = 0
		} else if b%4 == 2 {
			flags = 5
		}
		jobs = append(jobs, "bool:"+strconv.Itoa(n)+":"+strconv.Itoa(b)+":"+strconv.Itoa(of)+":"+strconv.Itoa(flags))
	}
	// quick: a quarter of the 2-node float expressions (which quarter depends on the seed); thorough: all
	fof, fmod := 16, 64
	if tier == "thorough" {
		fof, fmod = 200, 200
	}
	off := int(seed % 4)
	if off < 0 {
		off = -off
	}
	for b := 0; b < fof; b++ {
		slice := b
		if tier != "thorough" {
			slice = b*4 + off
		}
		jobs = append(jobs, "float:2:"+strconv.Itoa(slice)+":"+strconv.Itoa(fmod)+":"+strconv.Itoa(3-(b%4)%3))
	}
	jobs = append(jobs, "forms:bool", "@solver=cvc5@forms:float")
	// chains of three operators (left and right leaning, rendered with minimal parentheses): regrouping
	// of constants across operators of different priority
	for b := 0; b < 8; b++ {
		flags := []int{15, 0, 5, 15}[b%4]
		jobs = append(jobs, "chainb:"+strconv.Itoa(b)+":8:"+strconv.Itoa(flags))
	}
	for b := 0; b < 4; b++ {
		jobs = append(jobs, "chainf:"+strconv.Itoa(b)+":4:"+strconv.Itoa(3-b%3))
	}
	// a table whose prefix operator is also its highest priority binary operator (quick: a quarter by seed)
	sf := 8
	for b := 0; b < sf; b++ {
		if tier == "thorough" || b%4 == off {
			jobs = append(jobs, "smallf:"+strconv.Itoa(b)+":"+strconv.Itoa(sf))
		}
	}
	return jobs
}

// ---- expression trees ----

type bx struct {
	op   string // "" leaf
	leaf string
	l, r *bx
}

func (e *bx) text(sb *strings.Builder) {
	switch {
	case e.op == "":
		sb.WriteString(e.leaf)
	case e.r == nil:
		sb.WriteString(e.op + "(")
		e.l.text(sb)
		sb.WriteString(")")
	default:
		sb.WriteString("(")
		e.l.text(sb)
		sb.WriteString(")" + e.op + "(")
		e.r.text(sb)
		sb.WriteString(")")
	}
}

// flat renders without redundant parentheses where priority allows, so that the
// declared priorities are exercised: every second expression is rendered this way.
func (e *bx) flat(sb *strings.Builder, prio map[string]int, parent int, right bool) {
	switch {
	case e.op == "":
		sb.WriteString(e.leaf)
	case e.r == nil:
		if e.op == "neg" {
			sb.WriteString("-")
		} else {
			sb.WriteString(e.op)
		}
		if e.l.op != "" {
			sb.WriteString("(")
			e.l.flat(sb, prio, 0, false)
			sb.WriteString(")")
		} else {
			sb.WriteString(e.l.leaf)
		}
	default:
		p := prio[e.op]
		need := p < parent || (p == parent && right)
		if need {
			sb.WriteString("(")
		}
		e.l.flat(sb, prio, p, false)
		sb.WriteString(e.op)
		e.r.flat(sb, prio, p, true)
		if need {
			sb.WriteString(")")
		}
	}
}

func enumExpr(n int, leaves, binops, unops []string, memo map[int][]*bx) []*bx {
	if v, ok := memo[n]; ok {
		return v
	}
	var out []*bx
	if n == 0 {
		for _, l := range leaves {
			out = append(out, &bx{leaf: l})
		}
	} else {
		for _, u := range unops {
			for _, s := range enumExpr(n-1, leaves, binops, unops, memo) {
				out = append(out, &bx{op: u, l: s})
			}
		}
		for k := 0; k <= n-1; k++ {
			ls := enumExpr(k, leaves, binops, unops, memo)
			rs := enumExpr(n-1-k, leaves, binops, unops, memo)
			for _, o := range binops {
				for _, l := range ls {
					for _, r := range rs {
						out = append(out, &bx{op: o, l: l, r: r})
					}
				}
			}
		}
	}
	memo[n] = out
	return out
}

// ---- bool ----

func boolGen(flags int, optimize bool) *funcGen.FunctionGenerator[bool] {
	g := funcGen.New[bool]().
		AddConstant("false", false).
		AddConstant("true", true).
		AddSimpleOp("^", flags&1 != 0, func(a, b bool) (bool, error) { return a != b, nil }).
		AddSimpleOp("=", flags&2 != 0, func(a, b bool) (bool, error) { return a == b, nil }).
		AddSimpleOp("|", flags&4 != 0, func(a, b bool) (bool, error) { return sym.Or(a, b), nil }).
		AddSimpleOp("&", flags&8 != 0, func(a, b bool) (bool, error) { return sym.And(a, b), nil }).
		AddUnaryFunc("!", func(a bool) (bool, error) { return !a, nil }).
		SetToBool(func(c bool) (bool, bool) { return c, true }).
		SetKeyWords("let", "if", "then", "else")
	if !optimize {
		g.SetOptimizer(nil)
	}
	return g
}

func (e *bx) evalBool(env map[string]bool) bool {
	switch e.op {
	case "":
		switch e.leaf {
		case "true":
			return true
		case "false":
			return false
		}
		return env[e.leaf]
	case "!":
		return sym.Not(e.l.evalBool(env))
	case "^":
		return sym.Not(sym.Iff(e.l.evalBool(env), e.r.evalBool(env)))
	case "=":
		return sym.Iff(e.l.evalBool(env), e.r.evalBool(env))
	case "|":
		return sym.Or(e.l.evalBool(env), e.r.evalBool(env))
	case "&":
		return sym.And(e.l.evalBool(env), e.r.evalBool(env))
	}
	panic("evalBool " + e.op)
}

var boolPrio = map[string]int{"^": 1, "=": 2, "|": 3, "&": 4}

func c19CheckBool(src string, want bool, a, b, c bool, go1, go2 *funcGen.FunctionGenerator[bool]) {
	for k, g := range []*funcGen.FunctionGenerator[bool]{go1, go2} {
		tag := []string{"optimized", "unoptimized"}[k]
		f, _, err := g.Generate(src, "a", "b", "c")
		if err != nil {
			sym.Note("generate failed: " + src)
			sym.Assert(false, "generates:"+tag)
			continue
		}
		var r bool
		var e error
		panicked := false
		func() {
			defer func() {
				if rec := recover(); rec != nil {
					panicked = true
				}
			}()
			r, e = f.Eval(a, b, c)
		}()
		if e != nil || panicked {
			sym.Note("evaluation failed: " + src)
			sym.Assert(false, "evaluates:"+tag)
			continue
		}
		if sym.IsSym(r) || sym.IsSym(want) {
			sym.Assert(sym.Iff(r, want), "value-by-operator-definitions:"+tag)
		} else if r != want {
			sym.Note("wrong value for " + src)
			sym.Assert(false, "value-by-operator-definitions:"+tag)
		}
	}
}

// ---- float ----

func floatGen(flags int, optimize bool) *funcGen.FunctionGenerator[float64] {
	fromBool := func(b bool) float64 { return sym.IteF(b, 1, 0) }
	g := funcGen.New[float64]().
		SetComfort(true).
		AddConstant("pi", math.Pi).
		AddSimpleOp("=", false, func(a, b float64) (float64, error) { return fromBool(a == b), nil }).
		AddSimpleOp("<", false, func(a, b float64) (float64, error) { return fromBool(a < b), nil }).
		AddSimpleOp(">", false, func(a, b float64) (float64, error) { return fromBool(a > b), nil }).
		AddSimpleOp("+", flags&1 != 0, func(a, b float64) (float64, error) { return a + b, nil }).
		AddSimpleOp("-", false, func(a, b float64) (float64, error) { return a - b, nil }).
		AddSimpleOp("*", flags&2 != 0, func(a, b float64) (float64, error) { return a * b, nil }).
		AddSimpleOp("/", false, func(a, b float64) (float64, error) { return a / b, nil }).
		AddSimpleOp("^", false, func(a, b float64) (float64, error) { return math.Pow(a, b), nil }).
		AddUnaryFunc("-", func(a float64) (float64, error) { return -a, nil }).
		AddSimpleFunction("sqr", func(x float64) float64 { return x * x }).
		AddSimpleFunction("sqrt", math.Sqrt).
		SetToBool(func(c float64) (bool, bool) { return c != 0, true }).
		SetKeyWords("let", "if", "then", "else").
		SetNumberParser(parser2.NumberParserFunc[float64](func(n string) (float64, error) { return strconv.ParseFloat(n, 64) }))
	if !optimize {
		g.SetOptimizer(nil)
	}
	return g
}

// floatGenSmall: a float language whose prefix operator "-" is also its HIGHEST priority binary operator.
func floatGenSmall(optimize bool) *funcGen.FunctionGenerator[float64] {
	fromBool := func(b bool) float64 { return sym.IteF(b, 1, 0) }
	g := funcGen.New[float64]().
		AddSimpleOp("=", false, func(a, b float64) (float64, error) { return fromBool(a == b), nil }).
		AddSimpleOp("<", false, func(a, b float64) (float64, error) { return fromBool(a < b), nil }).
		AddSimpleOp("+", true, func(a, b float64) (float64, error) { return a + b, nil }).
		AddSimpleOp("-", false, func(a, b float64) (float64, error) { return a - b, nil }).
		AddUnaryFunc("-", func(a float64) (float64, error) { return -a, nil }).
		SetToBool(func(c float64) (bool, bool) { return c != 0, true }).
		SetNumberParser(parser2.NumberParserFunc[float64](func(n string) (float64, error) { return strconv.ParseFloat(n, 64) }))
	if !optimize {
		g.SetOptimizer(nil)
	}
	return g
}

var smallPrio = map[string]int{"=": 1, "<": 2, "+": 3, "-": 4}

func (e *bx) evalFloat(env map[string]float64) float64 {
	fb := func(b bool) float64 { return sym.IteF(b, 1, 0) }
	switch e.op {
	case "":
		if v, ok := env[e.leaf]; ok {
			return v
		}
		f, _ := strconv.ParseFloat(e.leaf, 64)
		return f
	case "neg":
		return -e.l.evalFloat(env)
	case "sqr":
		x := e.l.evalFloat(env)
		return x * x
	}
	x, y := e.l.evalFloat(env), e.r.evalFloat(env)
	switch e.op {
	case "=":
		return fb(x == y)
	case "<":
		return fb(x < y)
	case ">":
		return fb(x > y)
	case "+":
		return x + y
	case "-":
		return x - y
	case "*", "":
		return x * y
	case "/":
		return x / y
	case "^":
		return math.Pow(x, y)
	}
	panic("evalFloat " + e.op)
}

var floatPrio = map[string]int{"=": 1, "<": 2, ">": 3, "+": 4, "-": 5, "*": 6, "/": 7, "^": 8}

func (e *bx) ftext(sb *strings.Builder, implicitMul bool) {
	switch {
	case e.op == "":
		sb.WriteString(e.leaf)
	case e.op == "neg":
		sb.WriteString("-(")
		e.l.ftext(sb, implicitMul)
		sb.WriteString(")")
	case e.op == "sqr":
		sb.WriteString("sqr(")
		e.l.ftext(sb, implicitMul)
		sb.WriteString(")")
	default:
		sb.WriteString("(")
		e.l.ftext(sb, implicitMul)
		sb.WriteString(")")
		if !(e.op == "*" && implicitMul) {
			sb.WriteString(e.op)
		}
		sb.WriteString("(")
		e.r.ftext(sb, implicitMul)
		sb.WriteString(")")
	}
}

func c19CheckFloat(src string, want float64, a, b float64, go1, go2 *funcGen.FunctionGenerator[float64]) {
	for k, g := range []*funcGen.FunctionGenerator[float64]{go1, go2} {
		tag := []string{"optimized", "unoptimized"}[k]
		f, _, err := g.Generate(src, "a", "b")
		if err != nil {
			sym.Note("generate failed: " + src)
			sym.Assert(false, "generates:"+tag)
			continue
		}
		r, e := f.Eval(a, b)
		if e != nil {
			sym.Note("evaluation failed: " + src)
			sym.Assert(false, "evaluates:"+tag)
			continue
		}
		same := sym.Or(r == want, sym.And(r != r, want != want))
		if !sym.IsSym(same) && !same {
			sym.Note("wrong value for " + src)
		}
		sym.Assert(same, "value-by-operator-definitions:"+tag)
	}
}

// chains returns the left and right leaning trees of three binary operators over the leaves.
func chains(leaves, ops []string) []*bx {
	var out []*bx
	lf := func(s string) *bx { return &bx{leaf: s} }
	for _, o1 := range ops {
		for _, o2 := range ops {
			for _, o3 := range ops {
				for _, l0 := range leaves {
					for _, l1 := range leaves {
						for _, l2 := range leaves {
							for _, l3 := range leaves {
								out = append(out,
									&bx{op: o3, l: &bx{op: o2, l: &bx{op: o1, l: lf(l0), r: lf(l1)}, r: lf(l2)}, r: lf(l3)},
									&bx{op: o1, l: lf(l0), r: &bx{op: o2, l: lf(l1), r: &bx{op: o3, l: lf(l2), r: lf(l3)}}})
							}
						}
					}
				}
			}
		}
	}
	return out
}

func c19Run(job string) {
	parts := strings.Split(job, ":")
	switch parts[0] {
	case "chainb":
		batch, _ := strconv.Atoi(parts[1])
		of, _ := strconv.Atoi(parts[2])
		flags, _ := strconv.Atoi(parts[3])
		a, b, c := sym.Bool("a"), sym.Bool("b"), sym.Bool("c")
		env := map[string]bool{"a": a, "b": b, "c": c}
		g1, g2 := boolGen(flags, true), boolGen(flags, false)
		for idx, e := range chains([]string{"a", "true", "false"}, []string{"^", "=", "|", "&"}) {
			if idx%of != batch {
				continue
			}
			var sb strings.Builder
			e.flat(&sb, boolPrio, 0, false)
			c19CheckBool(sb.String(), e.evalBool(env), a, b, c, g1, g2)
		}
	case "smallf":
		batch, _ := strconv.Atoi(parts[1])
		of, _ := strconv.Atoi(parts[2])
		grid := []float64{-2.5, 0, 0.5, 3}
		a, b := grid[sym.Choice("a", len(grid))], grid[sym.Choice("b", len(grid))]
		env := map[string]float64{"a": a, "b": b}
		g1, g2 := floatGenSmall(true), floatGenSmall(false)
		memo := map[int][]*bx{}
		idx := 0
		for k := 0; k <= 2; k++ {
			for _, e := range enumExpr(k, []string{"a", "b", "2"}, []string{"=", "<", "+", "-"}, []string{"neg"}, memo) {
				idx++
				if idx%of != batch {
					continue
				}
				var sb strings.Builder
				e.flat(&sb, smallPrio, 0, false)
				c19CheckFloat(sb.String(), e.evalFloat(env), a, b, g1, g2)
			}
		}
	case "chainf":
		batch, _ := strconv.Atoi(parts[1])
		of, _ := strconv.Atoi(parts[2])
		flags, _ := strconv.Atoi(parts[3])
		grid := []float64{-2.5, 0, 0.5, 3}
		a := grid[sym.Choice("a", len(grid))]
		env := map[string]float64{"a": a, "b": 0}
		g1, g2 := floatGen(flags, true), floatGen(flags, false)
		for idx, e := range chains([]string{"a", "2", "0.5"}, []string{"+", "-", "*"}) {
			if idx%of != batch {
				continue
			}
			var sb strings.Builder
			e.flat(&sb, floatPrio, 0, false)
			c19CheckFloat(sb.String(), e.evalFloat(env), a, 0, g1, g2)
		}
	case "bool":
		n, _ := strconv.Atoi(parts[1])
		batch, _ := strconv.Atoi(parts[2])
		of, _ := strconv.Atoi(parts[3])
		flags, _ := strconv.Atoi(parts[4])
		a, b, c := sym.Bool("a"), sym.Bool("b"), sym.Bool("c")
		env := map[string]bool{"a": a, "b": b, "c": c}
		g1, g2 := boolGen(flags, true), boolGen(flags, false)
		memo := map[int][]*bx{}
		idx := 0
		for k := 0; k <= n; k++ {
			for _, e := range enumExpr(k, []string{"a", "b", "c", "true", "false"}, []string{"^", "=", "|", "&"}, []string{"!"}, memo) {
				idx++
				if idx%of != batch {
					continue
				}
				var sb strings.Builder
				if idx%2 == 0 {
					e.text(&sb)
				} else {
					e.flat(&sb, boolPrio, 0, false)
				}
				c19CheckBool(sb.String(), e.evalBool(env), a, b, c, g1, g2)
			}
		}
	case "float":
		n, _ := strconv.Atoi(parts[1])
		batch, _ := strconv.Atoi(parts[2])
		of, _ := strconv.Atoi(parts[3])
		flags, _ := strconv.Atoi(parts[4])
		// operands from a grid of exactly representable values (enumerated by path splitting)
		grid := []float64{-2.5, 0, 0.5, 3}
		a, b := grid[sym.Choice("a", len(grid))], grid[sym.Choice("b", len(grid))]
		env := map[string]float64{"a": a, "b": b}
		g1, g2 := floatGen(flags, true), floatGen(flags, false)
		memo := map[int][]*bx{}
		idx := 0
		for k := 0; k <= n; k++ {
			for _, e := range enumExpr(k, []string{"a", "b", "2", "0.5", "4"}, []string{"=", "<", ">", "+", "-", "*", "/", "^"}, []string{"neg", "sqr"}, memo) {
				idx++
				if idx%of != batch {
					continue
				}
				var sb strings.Builder
				e.ftext(&sb, idx%3 == 0)
				c19CheckFloat(sb.String(), e.evalFloat(env), a, b, g1, g2)
			}
		}
	case "forms":
		if parts[1] == "bool" {
			a, b, c := sym.Bool("a"), sym.Bool("b"), sym.Bool("c")
			g1, g2 := boolGen(15, true), boolGen(15, false)
			ite := func(c, x, y bool) bool { return sym.Or(sym.And(c, x), sym.And(sym.Not(c), y)) }
			forms := []struct {
				src  string
				want bool
			}{
				{"let x=a&b; x|c", sym.Or(sym.And(a, b), c)},
				{"let x=true; let y=x^a; y=b", sym.Iff(sym.Not(a), b)},
				{"let x=a; let y=!x; let z=y|b; z&c", sym.And(sym.Or(sym.Not(a), b), c)},
				{"if a then b else c", ite(a, b, c)},
				{"if true then a else b", a},
				{"if false then a else b", b},
				{"if a&true then true else false", a},
				{"if a then true else false", a},
				{"if a then false else true", sym.Not(a)},
				{"if a|b then c else !c", ite(sym.Or(a, b), c, sym.Not(c))},
				{"let t=true; if t then a else b", a},
				{"if a then (if b then c else !c) else let x=b|c; x", ite(a, ite(b, c, sym.Not(c)), sym.Or(b, c))},
				{"let x = if a then let y = b; y & a else c; x | c", sym.Or(ite(a, sym.And(b, a), c), c)},
				{"let x = if a then let y=b; let z=y|c; z else c; x^b", sym.Not(sym.Iff(ite(a, sym.Or(b, c), c), b))},
				{"let x = if a then b else let y = c; !y; let z = x; z=a", sym.Iff(ite(a, b, sym.Not(c)), a)},
				{"true=(false=a)", sym.Iff(true, sym.Iff(false, a))},
				{"false|(false|a)", a},
				{"(a|false)|false", a},
				{"true&(a&true)", a},
				{"true^(true^a)", a},
				{"false=(a=false)", sym.Not(sym.Iff(a, false))},
			}
			for _, f := range forms {
				c19CheckBool(f.src, f.want, a, b, c, g1, g2)
			}
		} else {
			ka, kb := sym.Int32("a"), sym.Int32("b")
			sym.Assume(sym.And(ka > -16, ka < 16))
			sym.Assume(sym.And(kb > -16, kb < 16))
			a, b := float64(ka)/4, float64(kb)/4
			g1, g2 := floatGen(3, true), floatGen(3, false)
			forms := []struct {
				src  string
				want float64
			}{
				{"let x=a+1; x*2", (a + 1) * 2},
				{"let x=2; let y=x*a; y-b", 2*a - b},
				{"if a then 1 else 0", sym.IteF(a != 0, 1, 0)},
				{"if a then 4 else 0", sym.IteF(a != 0, 4, 0)},
				{"if a<b then a else b", sym.IteF(a < b, a, b)},
				{"if 1 then a else b", a},
				{"if 0 then a else b", b},
				{"if a=b then 2 a else 4 b", sym.IteF(a == b, 2*a, 4*b)},
				{"let x = if a<b then let y=a*2; y+1 else b; x*x", sym.IteF(a < b, a*2+1, b) * sym.IteF(a < b, a*2+1, b)},
				{"let x = if a then let y=b+1; let z=y*2; z else a; x-b", sym.IteF(a != 0, (b+1)*2, a) - b},
				{"2*(4*a)", 2 * (4 * a)},
				{"2*(a*4)", 2 * (a * 4)},
				{"(2*a)*4", (2 * a) * 4},
				{"8-2*(4*a)", 8 - 2*(4*a)},
				{"2+(4+a)", 2 + (4 + a)},
				{"(a+2)+4", (a + 2) + 4},
				{"2(a+b)", 2 * (a + b)},
				{"(a+1)(b-1)", (a + 1) * (b - 1)},
				{"2a b", 2 * a * b},
				{"-a*b+(-(a-b))", -a*b + (-(a - b))},
				{"a-b-2", a - b - 2},
				{"a/2/4", a / 2 / 4},
				{"8/a", 8 / a},
				{"a<b=b>a", sym.IteF(sym.IteF(a < b, 1, 0) == sym.IteF(b > a, 1, 0), 1, 0)},
			}
			for _, f := range forms {
				c19CheckFloat(f.src, f.want, a, b, g1, g2)
			}
		}
	default:
		panic("c19: unknown job " + job)
	}
	sym.Reach("end")
}
