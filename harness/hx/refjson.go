package hx

import "unicode/utf8"

// A strict RFC 8259 reader (reference model for C17).  It works on bytes that
// may be symbolic under the engine: every comparison is an ordinary Go branch.

type jnode struct {
	kind  byte // 's' string, 'a' array, 'o' object, 'n' number, 't' true, 'f' false, 'z' null
	str   []rune
	items []*jnode
	keys  [][]rune
}

type jreader struct {
	b   []byte
	pos int
	ok  bool
}

func (r *jreader) fail() *jnode { r.ok = false; return nil }

func (r *jreader) ws() {
	for r.pos < len(r.b) {
		c := r.b[r.pos]
		if c == ' ' || c == '\t' || c == '\n' || c == '\r' {
			r.pos++
		} else {
			return
		}
	}
}

func hexVal(c byte) (rune, bool) {
	switch {
	case c >= '0' && c <= '9':
		return rune(c - '0'), true
	case c >= 'a' && c <= 'f':
		return rune(c-'a') + 10, true
	case c >= 'A' && c <= 'F':
		return rune(c-'A') + 10, true
	}
	return 0, false
}

func (r *jreader) hex4() (rune, bool) {
	if r.pos+4 > len(r.b) {
		return 0, false
	}
	var v rune
	for k := 0; k < 4; k++ {
		h, ok := hexVal(r.b[r.pos+k])
		if !ok {
			return 0, false
		}
		v = v<<4 | h
	}
	r.pos += 4
	return v, true
}

// str parses a JSON string starting at the opening quote.
func (r *jreader) str() ([]rune, bool) {
	if r.pos >= len(r.b) || r.b[r.pos] != '"' {
		return nil, false
	}
	r.pos++
	var out []rune
	for {
		if r.pos >= len(r.b) {
			return nil, false // unterminated
		}
		c := r.b[r.pos]
		if c == '"' {
			r.pos++
			return out, true
		}
		if c < 0x20 {
			return nil, false // control characters must be escaped
		}
		if c == '\\' {
			r.pos++
			if r.pos >= len(r.b) {
				return nil, false
			}
			e := r.b[r.pos]
			r.pos++
			switch e {
			case '"':
				out = append(out, '"')
			case '\\':
				out = append(out, '\\')
			case '/':
				out = append(out, '/')
			case 'b':
				out = append(out, '\b')
			case 'f':
				out = append(out, '\f')
			case 'n':
				out = append(out, '\n')
			case 'r':
				out = append(out, '\r')
			case 't':
				out = append(out, '\t')
			case 'u':
				v, ok := r.hex4()
				if !ok {
					return nil, false
				}
				if v >= 0xD800 && v <= 0xDBFF {
					// high surrogate: needs a low surrogate escape
					if r.pos+2 <= len(r.b) && r.b[r.pos] == '\\' && r.b[r.pos+1] == 'u' {
						r.pos += 2
						lo, ok := r.hex4()
						if !ok || lo < 0xDC00 || lo > 0xDFFF {
							return nil, false
						}
						v = 0x10000 + (v-0xD800)<<10 + (lo - 0xDC00)
					} else {
						return nil, false
					}
				} else if v >= 0xDC00 && v <= 0xDFFF {
					return nil, false
				}
				out = append(out, v)
			default:
				return nil, false
			}
			continue
		}
		if c < 0x80 {
			out = append(out, rune(c))
			r.pos++
			continue
		}
		ru, n := utf8.DecodeRune(r.b[r.pos:])
		if ru == utf8.RuneError && n <= 1 {
			return nil, false // invalid UTF-8
		}
		out = append(out, ru)
		r.pos += n
	}
}

func (r *jreader) number() bool {
	start := r.pos
	if r.pos < len(r.b) && r.b[r.pos] == '-' {
		r.pos++
	}
	digits := func() int {
		n := 0
		for r.pos < len(r.b) && r.b[r.pos] >= '0' && r.b[r.pos] <= '9' {
			r.pos++
			n++
		}
		return n
	}
	if r.pos < len(r.b) && r.b[r.pos] == '0' {
		r.pos++
	} else if digits() == 0 {
		return false
	}
	if r.pos < len(r.b) && r.b[r.pos] == '.' {
		r.pos++
		if digits() == 0 {
			return false
		}
	}
	if r.pos < len(r.b) && (r.b[r.pos] == 'e' || r.b[r.pos] == 'E') {
		r.pos++
		if r.pos < len(r.b) && (r.b[r.pos] == '+' || r.b[r.pos] == '-') {
			r.pos++
		}
		if digits() == 0 {
			return false
		}
	}
	return r.pos > start
}

func (r *jreader) lit(s string) bool {
	if r.pos+len(s) > len(r.b) {
		return false
	}
	for k := 0; k < len(s); k++ {
		if r.b[r.pos+k] != s[k] {
			return false
		}
	}
	r.pos += len(s)
	return true
}

func (r *jreader) value(depth int) *jnode {
	if depth > 16 {
		return r.fail()
	}
	r.ws()
	if r.pos >= len(r.b) {
		return r.fail()
	}
	switch c := r.b[r.pos]; {
	case c == '"':
		s, ok := r.str()
		if !ok {
			return r.fail()
		}
		return &jnode{kind: 's', str: s}
	case c == '[':
		r.pos++
		n := &jnode{kind: 'a'}
		r.ws()
		if r.pos < len(r.b) && r.b[r.pos] == ']' {
			r.pos++
			return n
		}
		for {
			it := r.value(depth + 1)
			if !r.ok {
				return nil
			}
			n.items = append(n.items, it)
			r.ws()
			if r.pos >= len(r.b) {
				return r.fail()
			}
			if r.b[r.pos] == ',' {
				r.pos++
				continue
			}
			if r.b[r.pos] == ']' {
				r.pos++
				return n
			}
			return r.fail()
		}
	case c == '{':
		r.pos++
		n := &jnode{kind: 'o'}
		r.ws()
		if r.pos < len(r.b) && r.b[r.pos] == '}' {
			r.pos++
			return n
		}
		for {
			r.ws()
			k, ok := r.str()
			if !ok {
				return r.fail()
			}
			r.ws()
			if r.pos >= len(r.b) || r.b[r.pos] != ':' {
				return r.fail()
			}
			r.pos++
			it := r.value(depth + 1)
			if !r.ok {
				return nil
			}
			n.keys = append(n.keys, k)
			n.items = append(n.items, it)
			r.ws()
			if r.pos >= len(r.b) {
				return r.fail()
			}
			if r.b[r.pos] == ',' {
				r.pos++
				continue
			}
			if r.b[r.pos] == '}' {
				r.pos++
				return n
			}
			return r.fail()
		}
	case c == 't':
		if r.lit("true") {
			return &jnode{kind: 't'}
		}
		return r.fail()
	case c == 'f':
		if r.lit("false") {
			return &jnode{kind: 'f'}
		}
		return r.fail()
	case c == 'n':
		if r.lit("null") {
			return &jnode{kind: 'z'}
		}
		return r.fail()
	default:
		if r.number() {
			return &jnode{kind: 'n'}
		}
		return r.fail()
	}
}

// refJSONParse parses a complete document.
func refJSONParse(b []byte) (*jnode, bool) {
	r := &jreader{b: b, ok: true}
	n := r.value(0)
	if !r.ok {
		return nil, false
	}
	r.ws()
	if r.pos != len(r.b) {
		return nil, false
	}
	return n, true
}
