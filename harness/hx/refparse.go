package hx

// Reference precedence-climbing parser over a toy lexer (oracle for C03).
//
// It implements exactly the rule of the property: binary operators in
// ascending priority, left associative; a prefix operator that is also binary
// takes the maximal operand built from strictly higher priorities; a pure
// prefix operator takes the postfix expression; postfix forms bind tightest.
// Lexing of operators is the greedy longest walk without backtracking that the
// repository's own tests pin.  ASCII input only (the C03 alphabet).

type rtable struct {
	ops     []string          // binary operators, ascending priority
	unary   []string          // prefix operators
	aliases map[string]string // text aliases
	idents  []string          // identifiers in scope at top level
}

type rtok struct {
	typ byte // 'i' ident, 'n' number, 'o' operator, 'x' invalid, 'e' eof, or the punctuation byte itself
	img string
}

type rnode struct {
	kind byte // 'o' operate, 'u' unary, 'i' ident, 'n' number, 'c' call, 'm' method, 'a' map access, 'x' index, 'f' closure, 'l' list
	op   string
	name string
	num  int
	kids []*rnode
	args []string
}

type rlexer struct {
	t      *rtable
	src    []byte
	pos    int
	allOps []string
}

func isLetterB(c byte) bool { return (c >= 'a' && c <= 'z') || (c >= 'A' && c <= 'Z') || c == '_' }
func isDigitB(c byte) bool  { return c >= '0' && c <= '9' }

func hasPrefixB(s string, p []byte) bool {
	if len(p) > len(s) {
		return false
	}
	for i := range p {
		if s[i] != p[i] {
			return false
		}
	}
	return true
}

func eqB(s string, p []byte) bool { return len(s) == len(p) && hasPrefixB(s, p) }

func (l *rlexer) next() rtok {
	for l.pos < len(l.src) {
		c := l.src[l.pos]
		if c == ' ' || c == '\t' || c == '\n' || c == '\r' {
			l.pos++
			continue
		}
		break
	}
	if l.pos >= len(l.src) {
		return rtok{typ: 'e'}
	}
	c := l.src[l.pos]
	switch c {
	case '(', ')', '[', ']', '.', ',', ';', ':', '{', '}':
		l.pos++
		return rtok{typ: c, img: string([]byte{c})}
	}
	if isDigitB(c) {
		start := l.pos
		last := byte(0)
		for l.pos < len(l.src) {
			d := l.src[l.pos]
			ok := isDigitB(d) || d == '.' || d == 'e' || (last == 'e' && (d == '-' || d == '+'))
			if !ok {
				break
			}
			last = d
			l.pos++
		}
		return rtok{typ: 'n', img: string(l.src[start:l.pos])}
	}
	if isLetterB(c) {
		start := l.pos
		for l.pos < len(l.src) && (isLetterB(l.src[l.pos]) || isDigitB(l.src[l.pos])) {
			l.pos++
		}
		img := string(l.src[start:l.pos])
		for k, v := range l.t.aliases {
			if k == img {
				return rtok{typ: 'o', img: v}
			}
		}
		return rtok{typ: 'i', img: img}
	}
	// operator: greedy walk, no backtracking
	start := l.pos
	any := false
	for _, o := range l.allOps {
		if hasPrefixB(o, l.src[start:start+1]) {
			any = true
		}
	}
	if !any {
		l.pos++
		return rtok{typ: 'x', img: string(l.src[start:l.pos])}
	}
	l.pos++
	for l.pos < len(l.src) {
		ext := false
		for _, o := range l.allOps {
			if hasPrefixB(o, l.src[start:l.pos+1]) {
				ext = true
			}
		}
		if !ext {
			break
		}
		l.pos++
	}
	valid := false
	for _, o := range l.allOps {
		if eqB(o, l.src[start:l.pos]) {
			valid = true
		}
	}
	if valid {
		return rtok{typ: 'o', img: string(l.src[start:l.pos])}
	}
	return rtok{typ: 'x', img: string(l.src[start:l.pos])}
}

type rparser struct {
	t    *rtable
	toks []rtok
	pos  int
	ok   bool
}

func refParse(t *rtable, src []byte) (*rnode, bool) {
	lx := &rlexer{t: t, src: src}
	lx.allOps = append(append([]string{}, t.ops...), "=", "->")
	lx.allOps = append(lx.allOps, t.unary...)
	p := &rparser{t: t, ok: true}
	for {
		tk := lx.next()
		p.toks = append(p.toks, tk)
		if tk.typ == 'e' {
			break
		}
	}
	n := p.level(0, t.idents)
	if !p.ok {
		return nil, false
	}
	if p.peek().typ != 'e' {
		return nil, false
	}
	return n, true
}

func (p *rparser) peek() rtok { return p.toks[p.pos] }
func (p *rparser) peek2() rtok {
	if p.pos+1 < len(p.toks) {
		return p.toks[p.pos+1]
	}
	return rtok{typ: 'e'}
}
func (p *rparser) take() rtok {
	t := p.toks[p.pos]
	if t.typ != 'e' {
		p.pos++
	}
	return t
}
func (p *rparser) fail() *rnode { p.ok = false; return nil }

func (p *rparser) level(lv int, scope []string) *rnode {
	if lv >= len(p.t.ops) {
		return p.unary(scope)
	}
	op := p.t.ops[lv]
	a := p.level(lv+1, scope)
	if !p.ok {
		return nil
	}
	for {
		t := p.peek()
		if t.typ == 'o' && t.img == op {
			p.take()
			b := p.level(lv+1, scope)
			if !p.ok {
				return nil
			}
			a = &rnode{kind: 'o', op: op, kids: []*rnode{a, b}}
		} else {
			return a
		}
	}
}

func (p *rparser) unary(scope []string) *rnode {
	t := p.peek()
	if t.typ == 'o' {
		isUn := false
		for _, u := range p.t.unary {
			if u == t.img {
				isUn = true
			}
		}
		if isUn {
			p.take()
			pos := -1
			for i, o := range p.t.ops {
				if o == t.img {
					pos = i
				}
			}
			var inner *rnode
			if pos >= 0 {
				inner = p.level(pos+1, scope)
			} else {
				inner = p.postfix(scope)
			}
			if !p.ok {
				return nil
			}
			return &rnode{kind: 'u', op: t.img, kids: []*rnode{inner}}
		}
	}
	return p.postfix(scope)
}

func (p *rparser) postfix(scope []string) *rnode {
	e := p.primary(scope)
	if !p.ok {
		return nil
	}
	for {
		switch p.peek().typ {
		case '.':
			p.take()
			t := p.take()
			if t.typ != 'i' {
				return p.fail()
			}
			if p.peek().typ != '(' {
				e = &rnode{kind: 'a', name: t.img, kids: []*rnode{e}}
			} else {
				p.take()
				args := p.args(')', scope)
				if !p.ok {
					return nil
				}
				e = &rnode{kind: 'm', name: t.img, kids: append([]*rnode{e}, args...)}
			}
		case '(':
			p.take()
			args := p.args(')', scope)
			if !p.ok {
				return nil
			}
			e = &rnode{kind: 'c', kids: append([]*rnode{e}, args...)}
		case '[':
			p.take()
			idx := p.level(0, scope)
			if !p.ok {
				return nil
			}
			if p.take().typ != ']' {
				return p.fail()
			}
			e = &rnode{kind: 'x', kids: []*rnode{e, idx}}
		default:
			return e
		}
	}
}

func (p *rparser) args(closer byte, scope []string) []*rnode {
	var out []*rnode
	if p.peek().typ == closer {
		p.take()
		return out
	}
	for {
		e := p.level(0, scope)
		if !p.ok {
			return nil
		}
		out = append(out, e)
		t := p.take()
		if t.typ == closer {
			return out
		}
		if t.typ != ',' {
			p.fail()
			return nil
		}
		if p.peek().typ == closer {
			p.take()
			return out
		}
	}
}

func inScope(scope []string, name string) bool {
	for _, s := range scope {
		if s == name {
			return true
		}
	}
	return false
}

func (p *rparser) primary(scope []string) *rnode {
	t := p.take()
	switch t.typ {
	case 'i':
		if n := p.peek(); n.typ == 'o' && n.img == "->" {
			p.take()
			body := p.level(0, append(append([]string{}, scope...), t.img))
			if !p.ok {
				return nil
			}
			return &rnode{kind: 'f', args: []string{t.img}, kids: []*rnode{body}}
		}
		if !inScope(scope, t.img) {
			return p.fail()
		}
		return &rnode{kind: 'i', name: t.img}
	case 'n':
		v := 0
		if len(t.img) > 18 {
			return p.fail()
		}
		for i := 0; i < len(t.img); i++ {
			c := t.img[i]
			if !isDigitB(c) {
				return p.fail()
			}
			v = v*10 + int(c-'0')
		}
		return &rnode{kind: 'n', num: v}
	case '[':
		args := p.args(']', scope)
		if !p.ok {
			return nil
		}
		return &rnode{kind: 'l', kids: args}
	case '(':
		if p.peek().typ == 'i' && p.peek2().typ == ',' {
			var names []string
			for {
				t := p.take()
				if t.typ != 'i' {
					return p.fail()
				}
				if inScope(names, t.img) {
					return p.fail()
				}
				names = append(names, t.img)
				t = p.take()
				if t.typ == ')' {
					break
				}
				if t.typ != ',' {
					return p.fail()
				}
			}
			t := p.take()
			if !(t.typ == 'o' && t.img == "->") {
				return p.fail()
			}
			body := p.level(0, append(append([]string{}, scope...), names...))
			if !p.ok {
				return nil
			}
			return &rnode{kind: 'f', args: names, kids: []*rnode{body}}
		}
		e := p.level(0, scope)
		if !p.ok {
			return nil
		}
		if p.take().typ != ')' {
			return p.fail()
		}
		return e
	}
	return p.fail()
}
