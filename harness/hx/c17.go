package hx

import (
	"encoding/json"
	"strconv"

	"github.com/hneemann/parser2/value"
	"github.com/hneemann/parser2/value/export"
	"verifharness/sym"
)

// C17 — JSON export is always valid JSON that preserves structure and text.
//
// Job = "<shape>:<n>": value-tree shape with strings of n symbolic runes each
// (every Unicode scalar value).  Oracle: the strict reader of refjson.go on the
// (symbolic) output bytes; natively encoding/json is consulted as well.

func init() {
	register(&Harness{Name: "c17", Property: "C17", Jobs: c17Jobs, Run: c17Run})
}

func c17Jobs(tier string, seed int64) []string {
	jobs := []string{"str:0", "str:1", "str:2", "list:1", "key:1", "val:1", "two:1", "lazy:1", "nest:1", "mixed:0", "nums:0", "reps:1", "bins:1", "funcmap:1"}
	if tier == "thorough" {
		jobs = append(jobs, "str:3", "list:2", "key:2", "val:2", "nest:2", "deep:1")
	}
	return jobs
}

// symRunes returns n symbolic Unicode scalar values.
func symRunes(name string, n int) []rune {
	rs := make([]rune, n)
	for i := range rs {
		r := sym.Rune(name + strconv.Itoa(i))
		sym.Assume(sym.And(r >= 0, r <= 0x10FFFF))
		sym.Assume(sym.Or(r < 0xD800, r > 0xDFFF))
		rs[i] = r
	}
	return rs
}

// xnode is the expected document.
type xnode struct {
	kind  byte // 's' 'a' 'o'
	str   []rune
	items []*xnode
	keys  [][]rune
}

func xs(rs []rune) *xnode          { return &xnode{kind: 's', str: rs} }
func xstr(s string) *xnode         { return &xnode{kind: 's', str: []rune(s)} }
func xa(items ...*xnode) *xnode    { return &xnode{kind: 'a', items: items} }
func runesEq(a, b []rune) bool {
	if len(a) != len(b) {
		return false
	}
	eq := true
	for i := range a {
		eq = sym.And(eq, a[i] == b[i])
	}
	return eq
}

// treeEq compares the parsed document with the expectation (objects as sets).
func treeEq(x *xnode, j *jnode) bool {
	if j == nil {
		return false
	}
	switch x.kind {
	case 's':
		if j.kind != 's' {
			return false
		}
		return runesEq(x.str, j.str)
	case '*': // any scalar (text not modelled, e.g. formatted bin labels)
		return j.kind == 's'
	case 'a':
		if j.kind != 'a' || len(j.items) != len(x.items) {
			return false
		}
		eq := true
		for i := range x.items {
			eq = sym.And(eq, treeEq(x.items[i], j.items[i]))
		}
		return eq
	case 'o':
		if j.kind != 'o' || len(j.items) != len(x.items) {
			return false
		}
		eq := true
		for i := range x.items {
			found := false
			for k := range j.items {
				found = sym.Or(found, sym.And(runesEq(x.keys[i], j.keys[k]), treeEq(x.items[i], j.items[k])))
			}
			eq = sym.And(eq, found)
		}
		// parsed keys are pairwise distinct
		for a := range j.keys {
			for b := a + 1; b < len(j.keys); b++ {
				eq = sym.And(eq, sym.Not(runesEq(j.keys[a], j.keys[b])))
			}
		}
		return eq
	}
	return false
}

func c17Run(job string) {
	shape, ns := split2(job)
	n, _ := strconv.Atoi(ns)
	fg := value.New()
	var v value.Value
	var want *xnode
	S := func(name string) ([]rune, value.Value) {
		rs := symRunes(name, n)
		return rs, value.String(string(rs))
	}
	switch shape {
	case "str":
		rs, sv := S("r")
		v, want = sv, xs(rs)
	case "list":
		rs, sv := S("r")
		v, want = value.NewList(sv, value.String("x")), xa(xs(rs), xstr("x"))
	case "key":
		rs, _ := S("k")
		v = value.NewMap(value.RealMap{string(rs): value.Int(1)})
		want = &xnode{kind: 'o', keys: [][]rune{rs}, items: []*xnode{xstr("1")}}
	case "val":
		rs, sv := S("r")
		v = value.NewMap(value.RealMap{"a": sv})
		want = &xnode{kind: 'o', keys: [][]rune{[]rune("a")}, items: []*xnode{xs(rs)}}
	case "two":
		k1, _ := S("k")
		k2, _ := S("l")
		sym.Assume(sym.Not(runesEq(k1, k2)))
		r1, s1 := []rune("v1"), value.String("v1")
		r2, s2 := []rune("v2"), value.String("v2")
		m := mustGen(fg, `{}.put(k1,v1).put(k2,v2)`, "k1", "v1", "k2", "v2")
		r := eval(m, value.String(string(k1)), s1, value.String(string(k2)), s2)
		sym.Assert(r.ok(), "build-map")
		if !r.ok() {
			return
		}
		v = r.v
		want = &xnode{kind: 'o', keys: [][]rune{k1, k2}, items: []*xnode{xs(r1), xs(r2)}}
	case "lazy":
		rs, sv := S("r")
		f := mustGen(fg, `[a,"y"].map(x->x).accept(x->true)+["z"]`, "a")
		r := eval(f, sv)
		sym.Assert(r.ok(), "build-lazy")
		if !r.ok() {
			return
		}
		v, want = r.v, xa(xs(rs), xstr("y"), xstr("z"))
	case "nest":
		rs, sv := S("r")
		ks, _ := S("k")
		f := mustGen(fg, `{a:[s,{b:s}],c:[[1,2.5,true,"q"]]}.put(k,[s])`, "s", "k")
		sym.Assume(sym.And(sym.Not(runesEq(ks, []rune("a"))), sym.Not(runesEq(ks, []rune("c")))))
		r := eval(f, sv, value.String(string(ks)))
		sym.Assert(r.ok(), "build-nest")
		if !r.ok() {
			return
		}
		v = r.v
		inner := &xnode{kind: 'o', keys: [][]rune{[]rune("b")}, items: []*xnode{xs(rs)}}
		want = &xnode{kind: 'o', keys: [][]rune{[]rune("a"), []rune("c"), ks},
			items: []*xnode{xa(xs(rs), inner), xa(xa(xstr("1"), xstr("2.5"), xstr("true"), xstr("q"))), xa(xs(rs))}}
	case "mixed":
		f := mustGen(fg, `[1,-7,2.5,1e30,1/0,true,false,"",[],{},[[]],{a:{}},"a\\b","\"q\"", "tab\tnl\nret\r"]`)
		r := eval(f)
		sym.Assert(r.ok(), "build-mixed")
		if !r.ok() {
			return
		}
		v = r.v
		eo := &xnode{kind: 'o'}
		want = xa(xstr("1"), xstr("-7"), xstr("2.5"), xstr("1e+30"), xstr("+Inf"), xstr("true"), xstr("false"), xstr(""),
			xa(), eo, xa(xa()), &xnode{kind: 'o', keys: [][]rune{[]rune("a")}, items: []*xnode{eo}},
			xstr(`a\b`), xstr(`"q"`), xstr("tab\tnl\nret\r"))
	case "nums":
		// scalars are written as the JSON string of their own string form, whatever their size
		f := mustGen(fg, `[0, 999999, 1000000, 1234567, -1000000, 123456789012, 9007199254740992, 9007199254740993, 9223372036854775807, -9223372036854775807, 1000000.0, 1000000.5, 0.1, 1e21, 1e-7, -0.0, 2^62, int(1e15), float(3)]`)
		r := eval(f)
		sym.Assert(r.ok(), "build-nums")
		if !r.ok() {
			return
		}
		v = r.v
		items, _ := r.v.(*value.List).ToSlice(emptyStack())
		var xs []*xnode
		for _, it := range items {
			str, err := it.ToString(emptyStack())
			sym.Assert(err == nil, "scalar-has-a-string-form")
			xs = append(xs, xstr(str))
		}
		want = xa(xa(xs...), &xnode{kind: 'o', keys: [][]rune{[]rune("n")}, items: []*xnode{xs[3]}})
		v = value.NewList(r.v, value.NewMap(value.RealMap{"n": items[3]}))
	case "reps":
		// maps in other representations: merged, replaced, evaluated, mapped
		rs, sv := S("r")
		f := mustGen(fg, `[({a:s}+{b:s}), {a:1,b:2}.replace(m->{b:s}), {a:s}.map((k,v)->v), {a:s,b:1}.accept((k,v)->k="a")]`, "s")
		r := eval(f, sv)
		sym.Assert(r.ok(), "build-reps")
		if !r.ok() {
			return
		}
		v = r.v
		ka, kb := []rune("a"), []rune("b")
		want = xa(
			&xnode{kind: 'o', keys: [][]rune{ka, kb}, items: []*xnode{xs(rs), xs(rs)}},
			&xnode{kind: 'o', keys: [][]rune{ka, kb}, items: []*xnode{xstr("1"), xs(rs)}},
			&xnode{kind: 'o', keys: [][]rune{ka}, items: []*xnode{xs(rs)}},
			&xnode{kind: 'o', keys: [][]rune{ka}, items: []*xnode{xs(rs)}})
	case "bins":
		// maps whose Size() differs from the entries they iterate (open-ended bin descriptions)
		rs, sv := S("r")
		f := mustGen(fg, `{b:[0.5,1.5].binning(0,1,2,x->x,x->1),s:s}`, "s")
		r := eval(f, sv)
		sym.Assert(r.ok(), "build-bins")
		if !r.ok() {
			return
		}
		v = r.v
		anyS := &xnode{kind: '*'}
		kstr, kmin, kmax := []rune("str"), []rune("min"), []rune("max")
		d0 := &xnode{kind: 'o', keys: [][]rune{kstr, kmax}, items: []*xnode{anyS, xstr("0")}}
		d1 := &xnode{kind: 'o', keys: [][]rune{kstr, kmin, kmax}, items: []*xnode{anyS, xstr("0"), xstr("1")}}
		d2 := &xnode{kind: 'o', keys: [][]rune{kstr, kmin, kmax}, items: []*xnode{anyS, xstr("1"), xstr("2")}}
		d3 := &xnode{kind: 'o', keys: [][]rune{kstr, kmin}, items: []*xnode{anyS, xstr("2")}}
		b := &xnode{kind: 'o', keys: [][]rune{[]rune("descr"), []rune("values")},
			items: []*xnode{xa(d0, d1, d2, d3), xa(xstr("0"), xstr("1"), xstr("1"), xstr("0"))}}
		want = &xnode{kind: 'o', keys: [][]rune{[]rune("b"), []rune("s")}, items: []*xnode{b, xs(rs)}}
	case "funcmap":
		// host-provided function map with a declared key that is absent for this value
		rs, sv := S("r")
		mf := value.NewFuncMapFactory(func(s value.String, key string) (value.Value, bool) {
			switch key {
			case "text":
				return s, true
			case "len":
				return value.Int(len(key)), true
			}
			return nil, false
		}, "text", "missing", "len")
		v = value.NewList(mf.Create(sv.(value.String)), value.String("x"))
		want = xa(&xnode{kind: 'o', keys: [][]rune{[]rune("text"), []rune("len")}, items: []*xnode{xs(rs), xstr("3")}}, xstr("x"))
	case "deep":
		rs, sv := S("r")
		f := mustGen(fg, `[[[[[s]]]],{a:{b:{c:{d:s}}}}]`, "s")
		r := eval(f, sv)
		sym.Assert(r.ok(), "build-deep")
		if !r.ok() {
			return
		}
		v = r.v
		d := &xnode{kind: 'o', keys: [][]rune{[]rune("d")}, items: []*xnode{xs(rs)}}
		c := &xnode{kind: 'o', keys: [][]rune{[]rune("c")}, items: []*xnode{d}}
		b := &xnode{kind: 'o', keys: [][]rune{[]rune("b")}, items: []*xnode{c}}
		a := &xnode{kind: 'o', keys: [][]rune{[]rune("a")}, items: []*xnode{b}}
		want = xa(xa(xa(xa(xa(xs(rs))))), a)
	default:
		panic("c17: unknown shape " + shape)
	}

	exp := export.JSON()
	var out []byte
	var err error
	func() {
		defer func() {
			if rec := recover(); rec != nil {
				sym.Assert(false, "export-panics")
				err = errPanic
			}
		}()
		err = export.Export(emptyStack(), v, exp)
		out = exp.Result()
	}()
	sym.Assert(err == nil, "export-succeeds")
	if err != nil {
		return
	}
	doc, ok := refJSONParse(out)
	sym.Assert(ok, "valid-json")
	if ok {
		sym.Assert(treeEq(want, doc), "decodes-to-same-structure")
	}
	if !sym.Symbolic() {
		// native cross-check with the standard decoder
		var any interface{}
		stdOK := json.Unmarshal(out, &any) == nil
		sym.Assert(stdOK == ok, "reference-reader-agrees-with-encoding/json")
	}
	sym.Reach("end")
}
