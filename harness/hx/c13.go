package hx

import (
	"strconv"
	"strings"

	"github.com/hneemann/parser2/value"
	"github.com/hneemann/parser2/value/export"
	"verifharness/sym"
)

// C13 — all map representations behave as one abstract key-value map.
//
// Histories of map operations (chosen by sym.Choice) over live handles with a
// Go-map model; after the history every handle is seen through ALL observers,
// which must agree with the model and therefore with each other.  Values are
// symbolic 64-bit ints.
//
// Jobs: hist:<steps>:<firstop>

func init() {
	register(&Harness{Name: "c13", Property: "C13", Jobs: c13Jobs, Run: c13Run})
}

var c13Ops = []string{"put", "putExisting", "merge", "mergeOverlap", "replaceIn", "replaceOut", "replaceMixed", "eval", "map", "accept", "replaceChain", "manyKeys", "putMerge"}

func c13Jobs(tier string, seed int64) []string {
	var jobs []string
	steps := 2
	if tier == "thorough" {
		steps = 3
	}
	for i := range c13Ops {
		st := steps
		if st == 3 && !(c13Ops[i] == "put" || c13Ops[i] == "replaceOut") {
			st = 2 // histories of three operations: ~7000 paths with all observers each; two first operations
		}
		jobs = append(jobs, "hist:"+strconv.Itoa(st)+":"+strconv.Itoa(i))
	}
	// keys that are no identifiers (empty, blank, with quotes) through every observer that takes or shows key strings
	jobs = append(jobs, "oddkeys:0:0")
	return jobs
}

type c13Handle struct {
	v    value.Value
	keys []string
	vals map[string]value.Value
}

func (h *c13Handle) clone() *c13Handle {
	n := &c13Handle{keys: append([]string{}, h.keys...), vals: map[string]value.Value{}}
	for k, v := range h.vals {
		n.vals[k] = v
	}
	return n
}

func (h *c13Handle) has(k string) bool { _, ok := h.vals[k]; return ok }

func (h *c13Handle) del(k string) {
	delete(h.vals, k)
	var ks []string
	for _, x := range h.keys {
		if x != k {
			ks = append(ks, x)
		}
	}
	h.keys = ks
}

func c13Observe(fg *value.FunctionGenerator, h *c13Handle, tag string) {
	m, ok := h.v.(value.Map)
	sym.Assert(ok, "handle-is-map:"+tag)
	if !ok {
		return
	}
	probe := append([]string{"k0", "k1", "k2", "zz", "n7"}, h.keys...)
	seenProbe := map[string]bool{}
	for _, k := range probe {
		if seenProbe[k] {
			continue
		}
		seenProbe[k] = true
		want, in := h.vals[k]
		// member access
		r := eval(mustGen(fg, "m."+k, "m"), m)
		sym.Assert(r.ok() == in, "member-access-defined:"+tag)
		if r.ok() && in {
			sym.Assert(valEq(r.v, want), "member-access-value:"+tag)
		}
		// get
		g := eval(mustGen(fg, `m.get("`+k+`")`, "m"), m)
		sym.Assert(g.ok() == in, "get-defined:"+tag)
		if g.ok() && in {
			sym.Assert(valEq(g.v, want), "get-value:"+tag)
		}
		// isAvail and ~
		ia := eval(mustGen(fg, `m.isAvail("`+k+`")`, "m"), m)
		if b, isB := boolOf(ia); isB {
			sym.Assert(b == in, "isAvail:"+tag)
		} else {
			sym.Assert(false, "isAvail-defined:"+tag)
		}
		ti := eval(mustGen(fg, `"`+k+`" ~ m`, "m"), m)
		if b, isB := boolOf(ti); isB {
			sym.Assert(b == in, "contains-key:"+tag)
		} else {
			sym.Assert(false, "contains-defined:"+tag)
		}
		// Go API
		gv, gok := m.Get(k)
		sym.Assert(gok == in, "api-get-defined:"+tag)
		if gok && in {
			sym.Assert(valEq(gv, want), "api-get-value:"+tag)
		}
	}
	// isAvail with several keys: all of them must be present, whatever their order
	multi := []string{"k0", "k1", "zz"}
	for _, k1 := range multi {
		for _, k2 := range multi {
			if k1 == k2 {
				continue
			}
			_, in1 := h.vals[k1]
			_, in2 := h.vals[k2]
			ia := eval(mustGen(fg, `m.isAvail("`+k1+`","`+k2+`")`, "m"), m)
			if b, isB := boolOf(ia); isB {
				sym.Assert(b == (in1 && in2), "isAvail-two-keys:"+tag)
			} else {
				sym.Assert(false, "isAvail-two-keys-defined:"+tag)
			}
		}
	}
	// size
	sz := eval(mustGen(fg, "m.size()", "m"), m)
	sym.Assert(sz.ok() && valEq(sz.v, value.Int(len(h.keys))), "size:"+tag)
	sym.Assert(m.Size() == len(h.keys), "api-size:"+tag)
	// iteration: every entry once, exactly the model's entries
	cnt := map[string]int{}
	eq := true
	m.Iter(func(k string, v value.Value) bool {
		cnt[k]++
		if want, in := h.vals[k]; in {
			eq = sym.And(eq, valEq(v, want))
		} else {
			eq = false
		}
		return true
	})
	sym.Assert(len(cnt) == len(h.keys), "iteration-key-set:"+tag)
	for _, k := range h.keys {
		sym.Assert(cnt[k] == 1, "iteration-unique-keys:"+tag)
	}
	sym.Assert(eq, "iteration-values:"+tag)
	// list()
	l := eval(mustGen(fg, "m.list()", "m"), m)
	sym.Assert(l.ok(), "list-defined:"+tag)
	if l.ok() {
		if ll, isL := l.v.(*value.List); isL {
			sl, err := ll.ToSlice(emptyStack())
			sym.Assert(err == nil && len(sl) == len(h.keys), "list-size:"+tag)
			if err == nil {
				leq := true
				for _, e := range sl {
					em, isM := e.(value.Map)
					if !isM {
						leq = false
						continue
					}
					kk, _ := em.Get("key")
					vv, _ := em.Get("value")
					ks, isS := kk.(value.String)
					if !isS || !h.has(string(ks)) {
						leq = false
						continue
					}
					leq = sym.And(leq, valEq(vv, h.vals[string(ks)]))
				}
				sym.Assert(leq, "list-entries:"+tag)
			}
		} else {
			sym.Assert(false, "list-is-list:"+tag)
		}
	}
	// string form (values replaced by 0 so that no symbolic number is formatted)
	s := eval(mustGen(fg, "m.map((k,v)->0).string()", "m"), m)
	sym.Assert(s.ok(), "string-defined:"+tag)
	if s.ok() {
		str, _ := s.v.(value.String)
		sym.Assert(strings.Count(string(str), ":0") == len(h.keys), "string-entry-count:"+tag)
		for _, k := range h.keys {
			sym.Assert(strings.Contains(string(str), k+":0"), "string-has-key:"+tag)
		}
	}
	// iteration based methods
	ac := eval(mustGen(fg, "m.accept((k,v)->true).size()", "m"), m)
	sym.Assert(ac.ok() && valEq(ac.v, value.Int(len(h.keys))), "accept-sees-all:"+tag)
	// equality against an independently built map, both directions, and a changed one
	lit := value.RealMap{}
	for k, v := range h.vals {
		lit[k] = v
	}
	e1 := eval(mustGen(fg, "m=o", "m", "o"), m, value.NewMap(lit))
	e2 := eval(mustGen(fg, "o=m", "m", "o"), m, value.NewMap(lit))
	b1, ok1 := boolOf(e1)
	b2, ok2 := boolOf(e2)
	sym.Assert(ok1 && ok2, "equality-defined:"+tag)
	if ok1 && ok2 {
		sym.Assert(sym.And(b1, b2), "equal-to-independent-build:"+tag)
	}
	if len(h.keys) > 0 {
		lit2 := value.RealMap{}
		for k, v := range h.vals {
			lit2[k] = v
		}
		lit2[h.keys[0]] = h.vals[h.keys[0]].(value.Int) + 1
		e3 := eval(mustGen(fg, "m=o", "m", "o"), m, value.NewMap(lit2))
		if b3, ok3 := boolOf(e3); ok3 {
			sym.Assert(sym.Not(b3), "unequal-to-changed-build:"+tag)
		}
		lit3 := value.RealMap{}
		for k, v := range h.vals {
			lit3[k] = v
		}
		lit3["extra"] = value.Int(1)
		e4 := eval(mustGen(fg, "m=o", "m", "o"), m, value.NewMap(lit3))
		if b4, ok4 := boolOf(e4); ok4 {
			sym.Assert(sym.Not(b4), "unequal-to-larger-build:"+tag)
		}
	}
	// JSON export sees the same key set
	z := eval(mustGen(fg, "m.map((k,v)->0)", "m"), m)
	if z.ok() {
		exp := export.JSON()
		if err := export.Export(emptyStack(), z.v, exp); err == nil {
			doc, okj := refJSONParse(exp.Result())
			sym.Assert(okj && doc.kind == 'o' && len(doc.keys) == len(h.keys), "export-key-count:"+tag)
			if okj && doc.kind == 'o' {
				for _, k := range doc.keys {
					sym.Assert(h.has(string(k)), "export-keys:"+tag)
				}
			}
		} else {
			sym.Assert(false, "export-defined:"+tag)
		}
	}
}

// c13OddKeys: maps holding keys that cannot be written as identifiers.
func c13OddKeys() {
	fg := value.New()
	x, y := value.Int(sym.Int64("e0")), value.Int(sym.Int64("e1"))
	odd := []string{"", " ", "a b", `q"q`, "k"}
	builds := []string{
		`{k:y}.put(K,x)`, `({k:y}+{}.put(K,x))`, `{k:y}.put(K,x).eval()`, `{}.put(K,x).put("k",y)`, `{k:y}.put(K,0).replace(o->{}.put(K,x))`,
	}
	for _, key := range odd[:4] {
		lit := strconv.Quote(key)
		for bi, b := range builds {
			tag := "odd" + strconv.Itoa(bi) + ":" + lit
			r := eval(mustGen(fg, strings.ReplaceAll(b, "K", lit), "x", "y"), x, y)
			sym.Assert(r.ok(), "build:"+tag)
			if !r.ok() {
				continue
			}
			m, ok := r.v.(value.Map)
			sym.Assert(ok, "is-map:"+tag)
			if !ok {
				continue
			}
			g := eval(mustGen(fg, "m.get("+lit+")+m.k*0", "m"), m)
			sym.Assert(g.ok() && valEq(g.v, x), "get:"+tag)
			ia := eval(mustGen(fg, "[m.isAvail("+lit+"), m.isAvail("+lit+`,"k"), m.isAvail("k",`+lit+`), m.isAvail("nope",`+lit+`), `+lit+" ~ m, m.size()]", "m"), m)
			sym.Assert(ia.ok() && valEq(ia.v, value.NewList(value.Bool(true), value.Bool(true), value.Bool(true), value.Bool(false), value.Bool(true), value.Int(2))), "isAvail-size:"+tag)
			// iteration and list(): each key once
			cnt := map[string]int{}
			m.Iter(func(k string, v value.Value) bool { cnt[k]++; return true })
			sym.Assert(len(cnt) == 2 && cnt[key] == 1 && cnt["k"] == 1, "iteration:"+tag)
			ls := eval(mustGen(fg, "m.list().map(e->e.key)", "m"), m)
			if ls.ok() {
				ks, _ := ls.v.(*value.List).ToSlice(emptyStack())
				sym.Assert(len(ks) == 2, "list-entries:"+tag)
			} else {
				sym.Assert(false, "list-defined:"+tag)
			}
			// JSON export: exactly the two entries
			z := eval(mustGen(fg, "m.map((k,v)->0)", "m"), m)
			if z.ok() {
				exp := export.JSON()
				if err := export.Export(emptyStack(), z.v, exp); err == nil {
					doc, okj := refJSONParse(exp.Result())
					sym.Assert(okj && doc.kind == 'o' && len(doc.keys) == 2, "export-entry-count:"+tag)
					if okj && doc.kind == 'o' && len(doc.keys) == 2 {
						a, b2 := string(doc.keys[0]), string(doc.keys[1])
						sym.Assert((a == key && b2 == "k") || (a == "k" && b2 == key), "export-keys:"+tag)
					}
				} else {
					sym.Assert(false, "export-defined:"+tag)
				}
			}
			// equality against an independently built map, both directions
			other := eval(mustGen(fg, "{}.put(\"k\",y).put("+lit+",x)", "x", "y"), x, y)
			if other.ok() {
				e1 := eval(mustGen(fg, "[a=b, b=a]", "a", "b"), m, other.v)
				sym.Assert(e1.ok() && valEq(e1.v, value.NewList(value.Bool(true), value.Bool(true))), "equals-independent-build:"+tag)
			}
		}
	}
	sym.Reach("end")
}

func c13Run(job string) {
	if strings.HasPrefix(job, "oddkeys") {
		c13OddKeys()
		return
	}
	parts := strings.Split(job, ":")
	steps, _ := strconv.Atoi(parts[1])
	first, _ := strconv.Atoi(parts[2])
	fg := value.New()
	e0, e1 := value.Int(sym.Int64("e0")), value.Int(sym.Int64("e1"))
	kind := sym.Choice("parent", 4)
	var pv value.Value
	switch kind {
	case 0:
		pv = eval(mustGen(fg, "{k0:x,k1:y}", "x", "y"), e0, e1).v
	case 1:
		pv = eval(mustGen(fg, `{k0:x}.put("k1",y)`, "x", "y"), e0, e1).v
	case 2:
		pv = eval(mustGen(fg, "{k0:x}+{k1:y}", "x", "y"), e0, e1).v
	default:
		pv = eval(mustGen(fg, "{k0:0,k1:y}.replace(m->{k0:x}).eval()", "x", "y"), e0, e1).v
	}
	handles := []*c13Handle{{v: pv, keys: []string{"k0", "k1"}, vals: map[string]value.Value{"k0": e0, "k1": e1}}}
	fresh := []string{"k2", "a", "b", "c"}
	// after the chosen history one more step repeats the last operation on the
	// same parent with another key: two siblings derived from one parent
	sibling := sym.Choice("sibling", 2)
	lastOp, lastParent := 0, 0
	for s := 0; s < steps+sibling; s++ {
		op := first
		if s >= steps {
			op = lastOp
		} else if s > 0 {
			op = sym.Choice("op"+strconv.Itoa(s), len(c13Ops))
		}
		pi := 0
		if s >= steps {
			pi = lastParent
		} else if len(handles) > 1 {
			pi = sym.Choice("parent"+strconv.Itoa(s), len(handles))
		}
		lastOp, lastParent = op, pi
		p := handles[pi]
		x := value.Int(sym.Int64("x" + strconv.Itoa(s)))
		nk := fresh[s%len(fresh)]
		if p.has(nk) {
			continue
		}
		n := p.clone()
		var r res
		expectErr := false
		switch c13Ops[op] {
		case "put":
			r = eval(mustGen(fg, `m.put("`+nk+`",x)`, "m", "x"), p.v, x)
			n.keys = append(n.keys, nk)
			n.vals[nk] = x
		case "putExisting":
			if len(p.keys) == 0 {
				continue
			}
			r = eval(mustGen(fg, `m.put("`+p.keys[len(p.keys)-1]+`",x)`, "m", "x"), p.v, x)
			expectErr = true
		case "merge":
			r = eval(mustGen(fg, "m+{"+nk+":x}", "m", "x"), p.v, x)
			n.keys = append(n.keys, nk)
			n.vals[nk] = x
		case "putMerge":
			r = eval(mustGen(fg, `{`+nk+`:x}+m.put("z`+nk+`",x)`, "m", "x"), p.v, x)
			n.keys = append(n.keys, nk, "z"+nk)
			n.vals[nk] = x
			n.vals["z"+nk] = x
		case "mergeOverlap":
			if len(p.keys) == 0 {
				continue
			}
			r = eval(mustGen(fg, "m+{"+nk+":x,"+p.keys[0]+":x}", "m", "x"), p.v, x)
			expectErr = true
		case "replaceIn":
			if !p.has("k0") {
				continue
			}
			r = eval(mustGen(fg, "m.replace(o->{k0:x})", "m", "x"), p.v, x)
			n.vals["k0"] = x
		case "replaceOut":
			r = eval(mustGen(fg, "m.replace(o->{zz:x})", "m", "x"), p.v, x)
		case "replaceMixed":
			if !p.has("k1") {
				continue
			}
			r = eval(mustGen(fg, "m.replace(o->{zz:x,k1:x})", "m", "x"), p.v, x)
			n.vals["k1"] = x
		case "eval":
			r = eval(mustGen(fg, "m.eval()", "m"), p.v)
		case "map":
			r = eval(mustGen(fg, "m.map((k,v)->v+x)", "m", "x"), p.v, x)
			for k, v := range p.vals {
				n.vals[k] = v.(value.Int) + x
			}
		case "accept":
			r = eval(mustGen(fg, `m.accept((k,v)->k!="k0")`, "m"), p.v)
			n.del("k0")
		case "replaceChain":
			// 12 nested replaces cross the flattening threshold
			if !p.has("k1") {
				continue
			}
			cur := p.v
			okc := true
			for i := 0; i < 12; i++ {
				// every link also offers a key outside the original key set, which must stay invisible
				// (also in the link that flattens the chain)
				rr := eval(mustGen(fg, "m.replace(o->{k1:o.k1+x,zz:x})", "m", "x"), cur, x)
				if !rr.ok() {
					okc = false
					break
				}
				cur = rr.v
			}
			sym.Assert(okc, "replace-chain-defined")
			if !okc {
				return
			}
			r = res{v: cur}
			n.vals["k1"] = p.vals["k1"].(value.Int) + 12*x
		case "manyKeys":
			// more than 20 keys: the hash-map representation after flattening
			var sb strings.Builder
			sb.WriteString("m+{")
			for i := 0; i < 21; i++ {
				if i > 0 {
					sb.WriteString(",")
				}
				k := "n" + strconv.Itoa(i)
				sb.WriteString(k + ":x+" + strconv.Itoa(i))
				n.keys = append(n.keys, k)
				n.vals[k] = x + value.Int(i)
			}
			sb.WriteString("}")
			if p.has("n0") {
				continue
			}
			r = eval(mustGen(fg, sb.String(), "m", "x"), p.v, x)
		}
		if expectErr {
			sym.Assert(!r.ok() && !r.panicked, "duplicate-key-rejected:"+c13Ops[op])
			continue
		}
		sym.Assert(r.ok(), "operation-defined:"+c13Ops[op])
		if !r.ok() {
			return
		}
		n.v = r.v
		handles = append(handles, n)
	}
	for k, h := range handles {
		c13Observe(fg, h, "h"+strconv.Itoa(k))
	}
	sym.Reach("end")
}
