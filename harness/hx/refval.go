package hx

// Reference semantics of the value expression language (oracle for C01, C02,
// C10, C16): an independent parser for the language subset used by the
// templates and a lexically scoped, call-by-value, left-to-right tree-walking
// evaluator.
//
// What is independent: tokenising/parsing of the templates, name resolution
// (nearest enclosing binding), closure capture, argument passing, evaluation
// order, let/func/if/switch/try semantics.  What is delegated to the library
// through one-operation programs ("x op y", "r.m(a0,a1)", "f(a0)", "x[i]"):
// the meaning of a single operator, method, static function or index on
// already evaluated operands (covered by C14/C07 on their own).

import (
	"errors"
	"strconv"
	"strings"

	"github.com/hneemann/parser2/funcGen"
	"github.com/hneemann/parser2/value"
)

// ---- AST ----

type vnode struct {
	k     string // int float str var bin un let func clo call meth mem idx if switch try list map
	s     string // name / operator / literal text
	kids  []*vnode
	names []string // closure/func parameters, map keys
}

// ---- lexer ----

type vtok struct {
	t byte // 'i' ident 'k' keyword 'n' number 's' string 'o' operator 'e' eof or punctuation
	s string
}

var vKeywords = map[string]bool{"let": true, "func": true, "if": true, "then": true, "else": true, "switch": true,
	"case": true, "default": true, "try": true, "catch": true, "const": true}

// binary operators of value.New() in ascending priority
var vOps = []string{"|", "&", "=", "!=", "~", "<", ">", "<=", ">=", "+", "-", "<<", ">>", "*", "%", "/", "^"}
var vOpChars = "|&=!~<>+-*%/^"

func vlex(src string) ([]vtok, error) {
	var out []vtok
	i := 0
	for i < len(src) {
		c := src[i]
		switch {
		case c == ' ' || c == '\n' || c == '\t' || c == '\r':
			i++
		case strings.IndexByte("()[]{}.,;:", c) >= 0:
			out = append(out, vtok{c, string(c)})
			i++
		case c >= '0' && c <= '9':
			j := i
			last := byte(0)
			for j < len(src) {
				d := src[j]
				if (d >= '0' && d <= '9') || d == '.' || d == 'e' || (last == 'e' && (d == '-' || d == '+')) {
					last = d
					j++
				} else {
					break
				}
			}
			out = append(out, vtok{'n', src[i:j]})
			i = j
		case c == '"':
			j := i + 1
			var sb strings.Builder
			for {
				if j >= len(src) {
					return nil, errors.New("unterminated string")
				}
				if src[j] == '"' {
					break
				}
				if src[j] == '\\' && j+1 < len(src) {
					switch src[j+1] {
					case 'n':
						sb.WriteByte('\n')
					case 't':
						sb.WriteByte('\t')
					case 'r':
						sb.WriteByte('\r')
					case '"':
						sb.WriteByte('"')
					case '\\':
						sb.WriteByte('\\')
					default:
						sb.WriteByte('\\')
						sb.WriteByte(src[j+1])
					}
					j += 2
					continue
				}
				sb.WriteByte(src[j])
				j++
			}
			out = append(out, vtok{'s', sb.String()})
			i = j + 1
		case (c >= 'a' && c <= 'z') || (c >= 'A' && c <= 'Z') || c == '_':
			j := i
			for j < len(src) && ((src[j] >= 'a' && src[j] <= 'z') || (src[j] >= 'A' && src[j] <= 'Z') || src[j] == '_' || (src[j] >= '0' && src[j] <= '9')) {
				j++
			}
			w := src[i:j]
			if vKeywords[w] {
				out = append(out, vtok{'k', w})
			} else {
				out = append(out, vtok{'i', w})
			}
			i = j
		case strings.IndexByte(vOpChars, c) >= 0:
			// longest operator among the table, "->" and "!"
			best := ""
			for _, o := range append(append([]string{}, vOps...), "->", "!") {
				if strings.HasPrefix(src[i:], o) && len(o) > len(best) {
					best = o
				}
			}
			if best == "" {
				return nil, errors.New("bad operator")
			}
			out = append(out, vtok{'o', best})
			i += len(best)
		default:
			return nil, errors.New("bad character")
		}
	}
	out = append(out, vtok{'e', ""})
	return out, nil
}

// ---- parser ----

type vparser struct {
	toks []vtok
	pos  int
	err  error
}

func (p *vparser) peek() vtok { return p.toks[p.pos] }
func (p *vparser) peekAt(n int) vtok {
	if p.pos+n < len(p.toks) {
		return p.toks[p.pos+n]
	}
	return vtok{'e', ""}
}
func (p *vparser) take() vtok {
	t := p.toks[p.pos]
	if t.t != 'e' {
		p.pos++
	}
	return t
}
func (p *vparser) fail(msg string) *vnode {
	if p.err == nil {
		p.err = errors.New(msg)
	}
	return nil
}
func (p *vparser) expect(t byte, s string) bool {
	tk := p.take()
	if tk.t != t || (s != "" && tk.s != s) {
		p.fail("expected " + s)
		return false
	}
	return true
}

func vparse(src string) (*vnode, error) {
	toks, err := vlex(src)
	if err != nil {
		return nil, err
	}
	p := &vparser{toks: toks}
	n := p.let()
	if p.err != nil {
		return nil, p.err
	}
	if p.peek().t != 'e' {
		return nil, errors.New("trailing tokens")
	}
	return n, nil
}

// let := "let" id "=" expr ";" let | "func" id "(" ids ")" let ";" let | expr
func (p *vparser) let() *vnode {
	if p.err != nil {
		return nil
	}
	t := p.peek()
	if t.t == 'k' && t.s == "let" {
		p.take()
		id := p.take()
		if id.t != 'i' {
			return p.fail("let needs identifier")
		}
		if !p.expect('o', "=") {
			return nil
		}
		v := p.expr(0)
		if !p.expect(';', ";") {
			return nil
		}
		inner := p.let()
		return &vnode{k: "let", s: id.s, kids: []*vnode{v, inner}}
	}
	if t.t == 'k' && t.s == "func" {
		p.take()
		id := p.take()
		if id.t != 'i' {
			return p.fail("func needs identifier")
		}
		if !p.expect('(', "(") {
			return nil
		}
		var names []string
		for {
			n := p.take()
			if n.t != 'i' {
				return p.fail("param")
			}
			names = append(names, n.s)
			c := p.take()
			if c.t == ')' {
				break
			}
			if c.t != ',' {
				return p.fail("param list")
			}
		}
		body := p.let()
		if !p.expect(';', ";") {
			return nil
		}
		inner := p.let()
		return &vnode{k: "func", s: id.s, names: names, kids: []*vnode{body, inner}}
	}
	return p.expr(0)
}

func (p *vparser) expr(lv int) *vnode {
	if p.err != nil {
		return nil
	}
	if lv >= len(vOps) {
		return p.unary()
	}
	a := p.expr(lv + 1)
	for p.err == nil {
		t := p.peek()
		if t.t == 'o' && t.s == vOps[lv] {
			p.take()
			b := p.expr(lv + 1)
			a = &vnode{k: "bin", s: vOps[lv], kids: []*vnode{a, b}}
		} else {
			break
		}
	}
	return a
}

func (p *vparser) unary() *vnode {
	t := p.peek()
	if t.t == 'o' && t.s == "-" {
		p.take()
		lv := 0
		for i, o := range vOps {
			if o == "-" {
				lv = i
			}
		}
		return &vnode{k: "un", s: "-", kids: []*vnode{p.expr(lv + 1)}}
	}
	if t.t == 'o' && t.s == "!" {
		p.take()
		return &vnode{k: "un", s: "!", kids: []*vnode{p.postfix()}}
	}
	return p.postfix()
}

func (p *vparser) args(closer byte) []*vnode {
	var out []*vnode
	if p.peek().t == closer {
		p.take()
		return out
	}
	for p.err == nil {
		out = append(out, p.let())
		t := p.take()
		if t.t == closer {
			return out
		}
		if t.t != ',' {
			p.fail("args")
			return nil
		}
	}
	return out
}

func (p *vparser) postfix() *vnode {
	e := p.primary()
	for p.err == nil {
		switch p.peek().t {
		case '.':
			p.take()
			id := p.take()
			if id.t != 'i' {
				return p.fail("member")
			}
			if p.peek().t == '(' {
				p.take()
				as := p.args(')')
				e = &vnode{k: "meth", s: id.s, kids: append([]*vnode{e}, as...)}
			} else {
				e = &vnode{k: "mem", s: id.s, kids: []*vnode{e}}
			}
		case '(':
			p.take()
			as := p.args(')')
			e = &vnode{k: "call", kids: append([]*vnode{e}, as...)}
		case '[':
			p.take()
			ix := p.expr(0)
			if !p.expect(']', "]") {
				return nil
			}
			e = &vnode{k: "idx", kids: []*vnode{e, ix}}
		default:
			return e
		}
	}
	return e
}

func (p *vparser) primary() *vnode {
	if p.err != nil {
		return nil
	}
	t := p.take()
	switch t.t {
	case 'i':
		if n := p.peek(); n.t == 'o' && n.s == "->" {
			p.take()
			return &vnode{k: "clo", names: []string{t.s}, kids: []*vnode{p.let()}}
		}
		return &vnode{k: "var", s: t.s}
	case 'n':
		if strings.ContainsAny(t.s, ".e") {
			return &vnode{k: "float", s: t.s}
		}
		return &vnode{k: "int", s: t.s}
	case 's':
		return &vnode{k: "str", s: t.s}
	case '[':
		return &vnode{k: "list", kids: p.args(']')}
	case '{':
		n := &vnode{k: "map"}
		for p.err == nil {
			k := p.take()
			if k.t == '}' {
				return n
			}
			if k.t != 'i' {
				return p.fail("map key")
			}
			if !p.expect(':', ":") {
				return nil
			}
			n.names = append(n.names, k.s)
			n.kids = append(n.kids, p.let())
			if p.peek().t == ',' {
				p.take()
			}
		}
		return n
	case '(':
		if p.peek().t == 'i' && p.peekAt(1).t == ',' {
			var names []string
			for {
				n := p.take()
				if n.t != 'i' {
					return p.fail("closure param")
				}
				names = append(names, n.s)
				c := p.take()
				if c.t == ')' {
					break
				}
				if c.t != ',' {
					return p.fail("closure params")
				}
			}
			if !p.expect('o', "->") {
				return nil
			}
			return &vnode{k: "clo", names: names, kids: []*vnode{p.let()}}
		}
		e := p.expr(0)
		if !p.expect(')', ")") {
			return nil
		}
		return e
	case 'k':
		switch t.s {
		case "if":
			c := p.expr(0)
			if !p.expect('k', "then") {
				return nil
			}
			a := p.let()
			if !p.expect('k', "else") {
				return nil
			}
			b := p.let()
			return &vnode{k: "if", kids: []*vnode{c, a, b}}
		case "try":
			a := p.let()
			if !p.expect('k', "catch") {
				return nil
			}
			b := p.let()
			return &vnode{k: "try", kids: []*vnode{a, b}}
		case "switch":
			n := &vnode{k: "switch", kids: []*vnode{p.expr(0)}}
			for p.err == nil {
				k := p.take()
				if k.t == 'k' && k.s == "case" {
					c := p.expr(0)
					if !p.expect(':', ":") {
						return nil
					}
					n.kids = append(n.kids, c, p.let())
				} else if k.t == 'k' && k.s == "default" {
					n.kids = append(n.kids, p.let())
					return n
				} else {
					return p.fail("switch")
				}
			}
			return n
		}
	}
	return p.fail("unexpected token " + t.s)
}

// ---- printer (used by C16 to write the explicit-member-access program) ----

func vprint(n *vnode) string {
	var sb strings.Builder
	vpr(&sb, n)
	return sb.String()
}

func vargs(sb *strings.Builder, as []*vnode) {
	for i, a := range as {
		if i > 0 {
			sb.WriteString(",")
		}
		vpr(sb, a)
	}
}

func vpr(sb *strings.Builder, n *vnode) {
	switch n.k {
	case "int", "float", "var":
		sb.WriteString(n.s)
	case "str":
		sb.WriteString(strconv.Quote(n.s))
	case "bin":
		sb.WriteString("(")
		vpr(sb, n.kids[0])
		sb.WriteString(" " + n.s + " ")
		vpr(sb, n.kids[1])
		sb.WriteString(")")
	case "un":
		sb.WriteString("(" + n.s)
		vpr(sb, n.kids[0])
		sb.WriteString(")")
	case "let":
		sb.WriteString("let " + n.s + "=")
		vpr(sb, n.kids[0])
		sb.WriteString("; ")
		vpr(sb, n.kids[1])
	case "func":
		sb.WriteString("func " + n.s + "(" + strings.Join(n.names, ",") + ") ")
		vpr(sb, n.kids[0])
		sb.WriteString("; ")
		vpr(sb, n.kids[1])
	case "clo":
		if len(n.names) == 1 {
			sb.WriteString("(" + n.names[0] + "->")
		} else {
			sb.WriteString("((" + strings.Join(n.names, ",") + ")->")
		}
		vpr(sb, n.kids[0])
		sb.WriteString(")")
	case "call":
		vpr(sb, n.kids[0])
		sb.WriteString("(")
		vargs(sb, n.kids[1:])
		sb.WriteString(")")
	case "meth":
		vpr(sb, n.kids[0])
		sb.WriteString("." + n.s + "(")
		vargs(sb, n.kids[1:])
		sb.WriteString(")")
	case "mem":
		vpr(sb, n.kids[0])
		sb.WriteString("." + n.s)
	case "idx":
		vpr(sb, n.kids[0])
		sb.WriteString("[")
		vpr(sb, n.kids[1])
		sb.WriteString("]")
	case "if":
		sb.WriteString("(if ")
		vpr(sb, n.kids[0])
		sb.WriteString(" then ")
		vpr(sb, n.kids[1])
		sb.WriteString(" else ")
		vpr(sb, n.kids[2])
		sb.WriteString(")")
	case "try":
		sb.WriteString("(try ")
		vpr(sb, n.kids[0])
		sb.WriteString(" catch ")
		vpr(sb, n.kids[1])
		sb.WriteString(")")
	case "switch":
		sb.WriteString("(switch ")
		vpr(sb, n.kids[0])
		for i := 1; i+1 < len(n.kids); i += 2 {
			sb.WriteString(" case ")
			vpr(sb, n.kids[i])
			sb.WriteString(": ")
			vpr(sb, n.kids[i+1])
		}
		sb.WriteString(" default ")
		vpr(sb, n.kids[len(n.kids)-1])
		sb.WriteString(")")
	case "list":
		sb.WriteString("[")
		vargs(sb, n.kids)
		sb.WriteString("]")
	case "map":
		sb.WriteString("{")
		for i, k := range n.names {
			if i > 0 {
				sb.WriteString(",")
			}
			sb.WriteString(k + ":")
			vpr(sb, n.kids[i])
		}
		sb.WriteString("}")
	}
}

// ---- evaluator ----

type venv struct {
	name   string
	val    value.Value
	parent *venv
}

func (e *venv) lookup(name string) (value.Value, bool) {
	for f := e; f != nil; f = f.parent {
		if f.name == name {
			return f.val, true
		}
	}
	return nil, false
}

type refEval struct {
	fg    *value.FunctionGenerator
	cache map[string]VFunc
	depth int
	// attribute mode (C16): unbound identifiers are members of this map
	attrMap value.Value
}

func newRefEval(fg *value.FunctionGenerator) *refEval {
	return &refEval{fg: fg, cache: map[string]VFunc{}}
}

var errRef = errors.New("reference: error")

// prim evaluates a one-operation program on evaluated operands through the library.
func (r *refEval) prim(exp string, names []string, args ...value.Value) (value.Value, error) {
	f, ok := r.cache[exp]
	if !ok {
		var err error
		f, _, err = r.fg.Generate(exp, names...)
		if err != nil {
			return nil, err
		}
		r.cache[exp] = f
	}
	return f.Eval(args...)
}

var argNames = []string{"x0", "x1", "x2", "x3", "x4", "x5"}

func (r *refEval) eval(n *vnode, env *venv) (value.Value, error) {
	r.depth++
	defer func() { r.depth-- }()
	if r.depth > 400 {
		return nil, errors.New("reference: recursion too deep")
	}
	switch n.k {
	case "int":
		v, err := strconv.ParseInt(n.s, 10, 64)
		if err != nil {
			return nil, err
		}
		return value.Int(v), nil
	case "float":
		v, err := strconv.ParseFloat(n.s, 64)
		if err != nil {
			return nil, err
		}
		return value.Float(v), nil
	case "str":
		return value.String(n.s), nil
	case "var":
		if v, ok := env.lookup(n.s); ok {
			return v, nil
		}
		switch n.s {
		case "true":
			return value.Bool(true), nil
		case "false":
			return value.Bool(false), nil
		case "pi":
			return value.Float(3.141592653589793), nil
		}
		if r.attrMap != nil {
			return r.prim("x0."+n.s, argNames[:1], r.attrMap)
		}
		return nil, errors.New("unbound " + n.s)
	case "bin":
		a, err := r.eval(n.kids[0], env)
		if err != nil {
			return nil, err
		}
		if n.s == "&" || n.s == "|" {
			// short-circuit on the left operand; the right operand is returned as is
			ab, ok := a.(value.Bool)
			if !ok {
				// not a bool: the operator's own table decides (bitwise on ints, error otherwise)
				b, err := r.eval(n.kids[1], env)
				if err != nil {
					return nil, err
				}
				return r.prim("x0 "+n.s+" x1", argNames[:2], a, b)
			}
			if n.s == "&" && !bool(ab) {
				return value.Bool(false), nil
			}
			if n.s == "|" && bool(ab) {
				return value.Bool(true), nil
			}
			bv, err := r.eval(n.kids[1], env)
			if err != nil {
				return nil, err
			}
			if _, ok := bv.(value.Bool); !ok {
				return nil, errRef
			}
			return bv, nil
		}
		b, err := r.eval(n.kids[1], env)
		if err != nil {
			return nil, err
		}
		return r.prim("x0 "+n.s+" x1", argNames[:2], a, b)
	case "un":
		a, err := r.eval(n.kids[0], env)
		if err != nil {
			return nil, err
		}
		return r.prim(n.s+"x0", argNames[:1], a)
	case "let":
		v, err := r.eval(n.kids[0], env)
		if err != nil {
			return nil, err
		}
		return r.eval(n.kids[1], &venv{name: n.s, val: v, parent: env})
	case "func":
		// recursive binding: the closure's environment contains itself
		self := &venv{name: n.s, parent: env}
		self.val = r.closure(n.names, n.kids[0], self)
		return r.eval(n.kids[1], self)
	case "clo":
		return r.closure(n.names, n.kids[0], env), nil
	case "list":
		items := make([]value.Value, 0, len(n.kids))
		for _, k := range n.kids {
			v, err := r.eval(k, env)
			if err != nil {
				return nil, err
			}
			items = append(items, v)
		}
		return value.NewList(items...), nil
	case "map":
		m := value.RealMap{}
		for i, k := range n.names {
			v, err := r.eval(n.kids[i], env)
			if err != nil {
				return nil, err
			}
			m[k] = v
		}
		return value.NewMap(m), nil
	case "if":
		c, err := r.eval(n.kids[0], env)
		if err != nil {
			return nil, err
		}
		cb, ok := c.(value.Bool)
		if !ok {
			return nil, errRef
		}
		if cb {
			return r.eval(n.kids[1], env)
		}
		return r.eval(n.kids[2], env)
	case "switch":
		sv, err := r.eval(n.kids[0], env)
		if err != nil {
			return nil, err
		}
		for i := 1; i+1 < len(n.kids); i += 2 {
			cv, err := r.eval(n.kids[i], env)
			if err != nil {
				return nil, err
			}
			eq, err := r.prim("x0 = x1", argNames[:2], sv, cv)
			if err != nil {
				return nil, err
			}
			eb, ok := eq.(value.Bool)
			if !ok {
				return nil, errRef
			}
			if eb {
				return r.eval(n.kids[i+1], env)
			}
		}
		return r.eval(n.kids[len(n.kids)-1], env)
	case "try":
		v, err := r.eval(n.kids[0], env)
		if err == nil {
			return v, nil
		}
		c, cerr := r.eval(n.kids[1], env)
		if cerr != nil {
			return nil, cerr
		}
		if cl, ok := c.(value.Closure); ok && cl.Args == 1 {
			return cl.Eval(emptyStack(), value.String(err.Error()))
		}
		return c, nil
	case "mem":
		m, err := r.eval(n.kids[0], env)
		if err != nil {
			return nil, err
		}
		return r.prim("x0."+n.s, argNames[:1], m)
	case "idx":
		l, err := r.eval(n.kids[0], env)
		if err != nil {
			return nil, err
		}
		ix, err := r.eval(n.kids[1], env)
		if err != nil {
			return nil, err
		}
		return r.prim("x0[x1]", argNames[:2], l, ix)
	case "meth":
		recv, err := r.eval(n.kids[0], env)
		if err != nil {
			return nil, err
		}
		args := []value.Value{recv}
		for _, k := range n.kids[1:] {
			v, err := r.eval(k, env)
			if err != nil {
				return nil, err
			}
			args = append(args, v)
		}
		if len(args) > len(argNames) {
			return nil, errors.New("reference: too many arguments")
		}
		exp := "x0." + n.s + "(" + strings.Join(argNames[1:len(args)], ",") + ")"
		return r.prim(exp, argNames[:len(args)], args...)
	case "call":
		// static function (an unbound name in call position) or a closure value
		callee := n.kids[0]
		if callee.k == "var" {
			if _, bound := env.lookup(callee.s); !bound && !(r.attrMap != nil && !r.isStatic(callee.s)) {
				var args []value.Value
				for _, k := range n.kids[1:] {
					v, err := r.eval(k, env)
					if err != nil {
						return nil, err
					}
					args = append(args, v)
				}
				if len(args) > len(argNames) {
					return nil, errors.New("reference: too many arguments")
				}
				exp := callee.s + "(" + strings.Join(argNames[:len(args)], ",") + ")"
				return r.prim(exp, argNames[:len(args)], args...)
			}
		}
		fv, err := r.eval(callee, env)
		if err != nil {
			return nil, err
		}
		var args []value.Value
		for _, k := range n.kids[1:] {
			v, err := r.eval(k, env)
			if err != nil {
				return nil, err
			}
			args = append(args, v)
		}
		cl, ok := fv.(value.Closure)
		if !ok {
			return nil, errRef
		}
		if cl.Args >= 0 && cl.Args != len(args) {
			return nil, errRef
		}
		return cl.EvalSt(emptyStack(), args...)
	}
	return nil, errors.New("reference: unknown node " + n.k)
}

// isStatic reports whether name is a static function of the generator.
func (r *refEval) isStatic(name string) bool {
	_, _, err := r.fg.Generate(name)
	return err == nil
}

func (r *refEval) closure(params []string, body *vnode, env *venv) value.Value {
	n := len(params)
	return value.Closure{Args: n, Func: func(st funcGen.Stack[value.Value], cs []value.Value) (value.Value, error) {
		e := env
		for i, p := range params {
			e = &venv{name: p, val: st.Get(i), parent: e}
		}
		return r.eval(body, e)
	}}
}

// Run evaluates a program with named arguments.
func (r *refEval) Run(prog *vnode, names []string, args []value.Value) (v value.Value, err error) {
	defer func() {
		if rec := recover(); rec != nil {
			v, err = nil, errors.New("reference: panic")
		}
	}()
	var env *venv
	for i, n := range names {
		env = &venv{name: n, val: args[i], parent: env}
	}
	return r.eval(prog, env)
}
