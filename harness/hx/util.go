package hx

import (
	"fmt"
	"math/rand"
	"strings"

	"github.com/hneemann/parser2/funcGen"
	"github.com/hneemann/parser2/value"
	"verifharness/sym"
)

type VFunc = funcGen.Func[value.Value]

// mustGen generates a function; a generation error is a harness bug or a
// regression that makes the template unusable: reported as an assertion.
func mustGen(fg *value.FunctionGenerator, exp string, args ...string) VFunc {
	f, _, err := fg.Generate(exp, args...)
	if err != nil {
		sym.Assert(false, "generate:"+exp)
		sym.Note("generate failed: " + exp + ": " + err.Error())
		sym.Assume(false)
	}
	return f
}

// res is the outcome of one evaluation.
type res struct {
	v        value.Value
	err      error
	panicked bool
}

func (r res) ok() bool { return r.err == nil && !r.panicked }

// eval evaluates f and converts an escaping Go panic into an outcome so that
// the harness can state "never panics" as an ordinary assertion (the native
// twin behaves identically).
func eval(f VFunc, args ...value.Value) (r res) {
	defer func() {
		if rec := recover(); rec != nil {
			r = res{panicked: true, err: fmt.Errorf("panic: %v", rec)}
		}
	}()
	v, err := f.Eval(args...)
	return res{v: v, err: err}
}

// boolOf extracts a Bool result: (b, isBool).
func boolOf(r res) (bool, bool) {
	if !r.ok() {
		return false, false
	}
	b, ok := r.v.(value.Bool)
	return bool(b), ok
}

const two53 = int64(1) << 53

// mk builds a value of the given kind letter from symbolic payloads.
//
//	I int (|x|<2^53)   J int (any 64-bit)   F float   B bool
//	S string of 2 symbolic bytes   s string of 1 symbolic byte   e empty string
//	L [I,I]   l [I,F]   N [[I]]   M {a:I,b:I}   m {a:I}.put("b",I)   C closure
func mk(fg *value.FunctionGenerator, kind byte, name string) value.Value {
	switch kind {
	case 'I':
		x := sym.Int64(name)
		sym.Assume(sym.And(x > -two53, x < two53))
		return value.Int(x)
	case 'J':
		return value.Int(sym.Int64(name))
	case 'F':
		return value.Float(sym.Float64(name))
	case 'B':
		return value.Bool(sym.Bool(name))
	case 'S':
		return value.String(string([]byte{sym.Byte(name + "0"), sym.Byte(name + "1")}))
	case 's':
		return value.String(string([]byte{sym.Byte(name + "0")}))
	case 'e':
		return value.String("")
	case 'L':
		return value.NewList(mk(fg, 'I', name+"0"), mk(fg, 'I', name+"1"))
	case 'l':
		return value.NewList(mk(fg, 'I', name+"0"), mk(fg, 'F', name+"1"))
	case 'N':
		return value.NewList(value.NewList(mk(fg, 'I', name+"0")))
	case 'M':
		return value.NewMap(value.RealMap{"a": mk(fg, 'I', name+"0"), "b": mk(fg, 'I', name+"1")})
	case 'm':
		f := mustGen(fg, `{a:x}.put("b",y)`, "x", "y")
		r := eval(f, mk(fg, 'I', name+"0"), mk(fg, 'I', name+"1"))
		if !r.ok() {
			sym.Assert(false, "mk-m")
			sym.Assume(false)
		}
		return r.v
	case 'C':
		f := mustGen(fg, `x->x+1`)
		r := eval(f)
		if !r.ok() {
			sym.Assert(false, "mk-C")
			sym.Assume(false)
		}
		return r.v
	}
	panic("mk: unknown kind " + string(kind))
}

// isNum etc. classify kind letters.
func isNumKind(k byte) bool { return k == 'I' || k == 'J' || k == 'F' }
func isStrKind(k byte) bool { return k == 'S' || k == 's' || k == 'e' }

func split2(job string) (string, string) {
	a, b, _ := strings.Cut(job, ":")
	return a, b
}

func rng(seed int64, salt string) *rand.Rand {
	h := int64(1469598103934665603)
	for i := 0; i < len(salt); i++ {
		h ^= int64(salt[i])
		h *= 1099511628211
	}
	return rand.New(rand.NewSource(seed ^ h))
}

var errPanic = fmt.Errorf("panic")
