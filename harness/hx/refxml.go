package hx

import "unicode/utf8"

// A small well-formedness reader for XML fragments (reference model for C18).
// It accepts what a conforming non-validating parser accepts for the constructs
// the exporters may emit (prolog, elements, attributes in double quotes, the
// five predefined entities and numeric character references, character data)
// and applies the normalisations of the XML specification: literal TAB/LF/CR in
// attribute values become blanks (3.3.3), literal CR and CRLF in character data
// become LF (2.11).  Works on bytes that may be symbolic.

type xattr struct {
	name string
	val  []rune
}

type xelem struct {
	name  string
	attrs []xattr
	kids  []*xelem
	// text pieces directly inside this element, in order (entity-decoded); whitespace-only
	// pieces between child elements are dropped by the caller where pretty printing adds them
	texts [][]rune
}

type xreader struct {
	b   []byte
	pos int
	ok  bool
}

func isNameStart(c byte) bool {
	return (c >= 'a' && c <= 'z') || (c >= 'A' && c <= 'Z') || c == '_' || c == ':'
}
func isNameChar(c byte) bool {
	return isNameStart(c) || (c >= '0' && c <= '9') || c == '-' || c == '.'
}

// nameStartRune / nameRune: NameStartChar and NameChar of the XML specification.
func nameStartRune(c rune) bool {
	return c == ':' || c == '_' || (c >= 'a' && c <= 'z') || (c >= 'A' && c <= 'Z') ||
		(c >= 0xC0 && c <= 0xD6) || (c >= 0xD8 && c <= 0xF6) || (c >= 0xF8 && c <= 0x2FF) || (c >= 0x370 && c <= 0x37D) ||
		(c >= 0x37F && c <= 0x1FFF) || (c >= 0x200C && c <= 0x200D) || (c >= 0x2070 && c <= 0x218F) || (c >= 0x2C00 && c <= 0x2FEF) ||
		(c >= 0x3001 && c <= 0xD7FF) || (c >= 0xF900 && c <= 0xFDCF) || (c >= 0xFDF0 && c <= 0xFFFD) || (c >= 0x10000 && c <= 0xEFFFF)
}
func nameRune(c rune) bool {
	return nameStartRune(c) || c == '-' || c == '.' || (c >= '0' && c <= '9') || c == 0xB7 || (c >= 0x300 && c <= 0x36F) || (c >= 0x203F && c <= 0x2040)
}

func (r *xreader) name() (string, bool) {
	start := r.pos
	first := true
	for r.pos < len(r.b) {
		var c rune
		n := 1
		if r.b[r.pos] < 0x80 {
			c = rune(r.b[r.pos])
		} else {
			c, n = utf8.DecodeRune(r.b[r.pos:])
			if c == utf8.RuneError && n <= 1 {
				return "", false
			}
		}
		if first {
			if !nameStartRune(c) {
				return "", false
			}
			first = false
		} else if !nameRune(c) {
			break
		}
		r.pos += n
	}
	if r.pos == start {
		return "", false
	}
	return string(r.b[start:r.pos]), true
}

func (r *xreader) skipWS() {
	for r.pos < len(r.b) {
		c := r.b[r.pos]
		if c == ' ' || c == '\t' || c == '\n' || c == '\r' {
			r.pos++
		} else {
			return
		}
	}
}

// entity decodes a reference starting at '&'.
func (r *xreader) entity() (rune, bool) {
	r.pos++ // '&'
	start := r.pos
	for r.pos < len(r.b) && r.b[r.pos] != ';' {
		if r.pos-start > 10 {
			return 0, false
		}
		r.pos++
	}
	if r.pos >= len(r.b) {
		return 0, false
	}
	body := r.b[start:r.pos]
	r.pos++ // ';'
	is := func(s string) bool {
		if len(body) != len(s) {
			return false
		}
		for i := range body {
			if body[i] != s[i] {
				return false
			}
		}
		return true
	}
	switch {
	case is("lt"):
		return '<', true
	case is("gt"):
		return '>', true
	case is("amp"):
		return '&', true
	case is("apos"):
		return '\'', true
	case is("quot"):
		return '"', true
	}
	if len(body) >= 2 && body[0] == '#' {
		var v rune
		if body[1] == 'x' {
			if len(body) < 3 {
				return 0, false
			}
			for _, c := range body[2:] {
				h, ok := hexVal(c)
				if !ok {
					return 0, false
				}
				v = v<<4 | h
			}
		} else {
			for _, c := range body[1:] {
				if c < '0' || c > '9' {
					return 0, false
				}
				v = v*10 + rune(c-'0')
			}
		}
		return v, true
	}
	return 0, false
}

func (r *xreader) attrValue() ([]rune, bool) {
	if r.pos >= len(r.b) || r.b[r.pos] != '"' {
		return nil, false
	}
	r.pos++
	var out []rune
	for {
		if r.pos >= len(r.b) {
			return nil, false
		}
		c := r.b[r.pos]
		switch {
		case c == '"':
			r.pos++
			return out, true
		case c == '<':
			return nil, false
		case c == '&':
			v, ok := r.entity()
			if !ok {
				return nil, false
			}
			out = append(out, v)
		case c == '\t' || c == '\n' || c == '\r':
			// attribute value normalisation
			out = append(out, ' ')
			r.pos++
		case c < 0x80:
			out = append(out, rune(c))
			r.pos++
		default:
			ru, n := utf8.DecodeRune(r.b[r.pos:])
			if ru == utf8.RuneError && n <= 1 {
				return nil, false
			}
			out = append(out, ru)
			r.pos += n
		}
	}
}

// element parses one element starting at '<name'.
func (r *xreader) element(depth int) *xelem {
	if depth > 24 {
		r.ok = false
		return nil
	}
	r.pos++ // '<'
	nm, ok := r.name()
	if !ok {
		r.ok = false
		return nil
	}
	e := &xelem{name: nm}
	for {
		had := r.pos
		r.skipWS()
		if r.pos >= len(r.b) {
			r.ok = false
			return nil
		}
		c := r.b[r.pos]
		if c == '/' {
			if r.pos+1 < len(r.b) && r.b[r.pos+1] == '>' {
				r.pos += 2
				return e
			}
			r.ok = false
			return nil
		}
		if c == '>' {
			r.pos++
			break
		}
		if had == r.pos {
			r.ok = false // attributes must be separated by white space
			return nil
		}
		an, ok := r.name()
		if !ok {
			r.ok = false
			return nil
		}
		r.skipWS()
		if r.pos >= len(r.b) || r.b[r.pos] != '=' {
			r.ok = false
			return nil
		}
		r.pos++
		r.skipWS()
		av, ok := r.attrValue()
		if !ok {
			r.ok = false
			return nil
		}
		for _, a := range e.attrs {
			if a.name == an {
				r.ok = false // duplicate attribute
				return nil
			}
		}
		e.attrs = append(e.attrs, xattr{an, av})
	}
	// content
	var text []rune
	flush := func() {
		if text != nil {
			e.texts = append(e.texts, text)
			text = nil
		}
	}
	for {
		if r.pos >= len(r.b) {
			r.ok = false
			return nil
		}
		c := r.b[r.pos]
		switch {
		case c == '<':
			if r.pos+1 < len(r.b) && r.b[r.pos+1] == '/' {
				flush()
				r.pos += 2
				cn, ok := r.name()
				if !ok || cn != nm {
					r.ok = false
					return nil
				}
				r.skipWS()
				if r.pos >= len(r.b) || r.b[r.pos] != '>' {
					r.ok = false
					return nil
				}
				r.pos++
				return e
			}
			if r.pos+1 < len(r.b) && (r.b[r.pos+1] == '!' || r.b[r.pos+1] == '?') {
				r.ok = false // comments, CDATA, PIs are never emitted by the exporters
				return nil
			}
			flush()
			k := r.element(depth + 1)
			if !r.ok {
				return nil
			}
			e.kids = append(e.kids, k)
		case c == '&':
			v, ok := r.entity()
			if !ok {
				r.ok = false
				return nil
			}
			text = append(text, v)
			if text == nil {
				text = []rune{}
			}
		case c == '\r':
			// end-of-line normalisation
			r.pos++
			if r.pos < len(r.b) && r.b[r.pos] == '\n' {
				r.pos++
			}
			text = append(text, '\n')
		case c == ']' && r.pos+2 < len(r.b) && r.b[r.pos+1] == ']' && r.b[r.pos+2] == '>':
			r.ok = false
			return nil
		case c < 0x80:
			text = append(text, rune(c))
			r.pos++
		default:
			ru, n := utf8.DecodeRune(r.b[r.pos:])
			if ru == utf8.RuneError && n <= 1 {
				r.ok = false
				return nil
			}
			text = append(text, ru)
			r.pos += n
		}
	}
}

// refXMLParse parses a document (optional prolog, one root element).
func refXMLParse(b []byte) (*xelem, bool) {
	r := &xreader{b: b, ok: true}
	r.skipWS()
	if r.pos+1 < len(b) && b[r.pos] == '<' && b[r.pos+1] == '?' {
		for r.pos+1 < len(b) && !(b[r.pos] == '?' && b[r.pos+1] == '>') {
			r.pos++
		}
		r.pos += 2
	}
	r.skipWS()
	if r.pos >= len(b) || b[r.pos] != '<' {
		return nil, false
	}
	e := r.element(0)
	if !r.ok {
		return nil, false
	}
	r.skipWS()
	if r.pos != len(b) {
		return nil, false
	}
	return e, true
}

func isWSRunes(rs []rune) bool {
	for _, c := range rs {
		if !(c == ' ' || c == '\t' || c == '\n' || c == '\r') {
			return false
		}
	}
	return true
}
