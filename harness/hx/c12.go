package hx

import (
	"github.com/hneemann/parser2/funcGen"
	"time"
	"strconv"
	"strings"

	"github.com/hneemann/parser2/value"
	"verifharness/sym"
)

// C12 — Parse, Generate and evaluation leave no goroutine behind.
//
// The deciding monitor is the engine's quiescence check: after the harness has
// returned, all goroutines are run until they finish or block for good (or a
// step budget is exhausted = still running).  Natively the goroutine count is
// compared with the count before the call after a grace period.
//
// Jobs:
//	parse:<cfg>:<N>        N symbolic bytes (all 256 values), every way parsing can stop
//	trunc:<cfg>:<program>  valid program truncated at a symbolic length
//	tmpl:<cfg>:1:<program> one symbolic byte overwritten/inserted at a symbolic position
//	eval:<program>         pipelines with early-stopping consumers / failing elements

func init() {
	register(&Harness{Name: "c12", Property: "C12", Jobs: c12Jobs, Run: c12Run})
}

var c12Pipelines = []string{
	// channel-fed stages and early stopping consumers
	`numbers(n).map(x->x+a).merge(numbers(n).map(x->x*2),(p,q)->p<q).first()`,
	`numbers(n).merge(numbers(n),(p,q)->p<q).top(3).size()`,
	`numbers(n).multiUse({f:l->l.first(),s:l->l.top(2).size()}).f`,
	`numbers(n).multiUse({f:l->l.first(),s:l->l.present(x->x>3)}).s`,
	`[1,2,3]=[1,2,4]`,
	`numbers(n).map(x->x+a).top(4)=numbers(n).map(x->x+a).top(4)`,
	`numbers(10).map(x->if x=a then throw("e") else x).merge(numbers(10),(p,q)->p<q).size()`,
	`numbers(10).multiUse({f:l->l.map(x->if x=a then throw("e") else x).size(),s:l->l.size()}).s`,
	`numbers(n).map(x->x+a).first()`,
	// misuse and error paths of channel-fed stages
	`numbers(a+3).multiUse({x:l->l.size(),y:3})`,
	`numbers(a+3).multiUse({x:l->l.size(),y:(p,q)->p})`,
	`numbers(a+3).multiUse({x:l->l.size(),y:l->l.map(e->e.k).size()})`,
	`numbers(a+3).multiUse({x:l->l.first(),y:l->throw("e")})`,
	`try numbers(a+3).multiUse({x:l->l.reduce((p,q)->p+q),y:l->l.map(e->if e=a then throw("e") else e).size()}) catch 0`,
	`numbers(a+3).merge(3,(p,q)->p<q)`,
	`numbers(a+3).merge(numbers(3),(p,q)->p.k<q).size()`,
	`numbers(a+3).merge(numbers(3),(p,q)->7).size()`,
	`numbers(n).accept(x->x>a).indexWhere(x->x>a+2)`,
	// a Go panic inside the function of a stage that feeds multiUse or merge (host function, runaway recursion)
	`try numbers(5).number((i,x)->boom(x)).multiUse({f:l->l.size(),s:l->l.first()}).f catch 0`,
	`try numbers(5).combine((p,q)->boom(p)).multiUse({f:l->l.size(),s:l->l.top(2).size()}).s catch 0`,
	`try numbers(5).iir(x->x,(x,o)->boom(o)).merge(numbers(5),(p,q)->p<q).size() catch 0`,
	`try numbers(5).map(x->x+a).multiUse({f:l->l.number((i,x)->boom(x)).size(),s:l->l.size()}).s catch 0`,
	// lists of known large size with an early stopping consumer
	`numbers(20000).map(x->x+a).first()`,
	`numbers(10000).map(x->x*2).top(3+a).size()`,
	`numbers(12000).accept(x->x>a).present(x->x>5)`,
	// early stopping consumers and failing elements behind a stage that has switched to parallel workers
	`numbers(40).map(x->slow(x)).top(20+a).size()`,
	`numbers(40).map(x->slow(x)).indexWhere(x->x=20+a)`,
	`numbers(40).accept(x->slow(x)>=0).present(x->x=25+a)`,
	`try numbers(40).map(x->if x=20+a then throw("e") else slow(x)).size() catch 0`,
	`numbers(40).map(x->slow(x)).map(x->slow(x)+a).top(30).size()`,
	`numbers(40).map(x->slow(x)).multiUse({f:l->l.top(15).size(),s:l->l.first()}).f`,
}

func c12Jobs(tier string, seed int64) []string {
	var jobs []string
	add := func(j string) { jobs = append(jobs, "@steps=3000000@"+j) }
	n := 1
	if tier == "thorough" {
		n = 2
	}
	for _, cfg := range []string{"val", "gcfk"} {
		for k := 0; k <= n; k++ {
			add("parse:" + cfg + ":" + strconv.Itoa(k))
		}
	}
	for pi, p := range c04Programs {
		for _, cfg := range []string{"val", "gcfk"} {
			if cfg == "val" && strings.Contains(p, "//") {
				continue
			}
			add("trunc:" + cfg + ":" + p)
			if tier == "thorough" && pi < 2 {
				add("tmpl:" + cfg + ":1:" + p)
			}
		}
	}
	// a complete expression followed by symbolic trailing tokens (over a small token alphabet)
	for _, cfg := range []string{"val", "gcfk"} {
		add("suffix:" + cfg + ":3:a+1")
		add("suffix:" + cfg + ":2:f(a")
		if tier == "thorough" {
			add("suffix:" + cfg + ":4:a")
			add("suffix:" + cfg + ":3:[a,{b:1}")
		}
	}
	for _, p := range c12Pipelines {
		add("eval:" + p)
	}
	return jobs
}

func c12Run(job string) {
	kind, rest := split2(job)
	if kind == "eval" {
		fg := value.New()
		fg.AddStaticFunction("boom", funcGen.Function[value.Value]{
			Func: func(st funcGen.Stack[value.Value], cs []value.Value) (value.Value, error) { panic("host function panics") },
			Args: 1, IsPure: false})
		// slow(x): 400us of virtual time, forces the switch of map/accept to parallel workers
		fg.AddStaticFunction("slow", funcGen.Function[value.Value]{
			Func: func(st funcGen.Stack[value.Value], cs []value.Value) (value.Value, error) {
				time.Sleep(400 * time.Microsecond)
				return st.Get(0), nil
			}, Args: 1, IsPure: false})
		f := mustGen(fg, rest, "a", "n")
		a := sym.Int64("a")
		sym.Assume(sym.And(a >= 0, a < 6))
		// an effectively unbounded source: left-over producers never finish on their own
		r := eval(f, value.Int(a), value.Int(100000000000))
		sym.Assert(!r.panicked, "no-panic")
		sym.Reach("end")
		return
	}
	// parsing jobs share C04's input construction
	c04Run(job2c04(job))
}

func job2c04(job string) string {
	if strings.HasPrefix(job, "parse:") {
		return "free:" + job[len("parse:"):]
	}
	return job
}
