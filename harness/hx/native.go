package hx

import (
	"fmt"
	"os"
	"runtime"
	"time"

	"verifharness/sym"
)

// NativeRun executes one job natively (inputs from VERIF_REPLAY) and reports
// what happened in a line-oriented form that the engine's replay step parses:
//
//	ASSERT-FAILED <id>      printed by sym.Assert
//	NATIVE-DONE failed=<n>  normal end
//
// A Go panic that escapes the harness crashes the process (exit status 2),
// which is exactly what the escape monitor's findings must reproduce.
func NativeRun(name, job string) {
	h := Registry[name]
	if h == nil {
		fmt.Fprintln(os.Stderr, "unknown harness", name)
		os.Exit(2)
	}
	base := runtime.NumGoroutine()
	h.Run(stripOpts(job))
	// quiescence: goroutines started by the job must be gone after a grace period
	leaked := 0
	for i := 0; i < 40; i++ {
		leaked = runtime.NumGoroutine() - base
		if leaked <= 0 {
			break
		}
		time.Sleep(10 * time.Millisecond)
	}
	if leaked > 0 {
		fmt.Printf("NATIVE-LEAK %d goroutine(s) still alive 400ms after the call returned\n", leaked)
	}
	for _, n := range sym.Notes {
		fmt.Println("NOTE " + n)
	}
	for _, r := range sym.Reached {
		fmt.Println("REACHED " + r)
	}
	fmt.Printf("NATIVE-DONE failed=%d\n", len(sym.Failed))
	if len(sym.Failed) > 0 {
		os.Exit(7)
	}
}
