package hx

import (
	"fmt"
	"os"

	"verifharness/sym"
)

// NativeRun executes one job natively (inputs from VERIF_REPLAY) and reports
// what happened in a line-oriented form that the engine's replay step parses:
//
//	ASSERT-FAILED <id>      printed by sym.Assert
//	NATIVE-DONE failed=<n>  normal end
//
// A Go panic that escapes the harness crashes the process (exit status 2),
// which is exactly what the escape monitor's findings must reproduce.
func NativeRun(name, job string) {
	h := Registry[name]
	if h == nil {
		fmt.Fprintln(os.Stderr, "unknown harness", name)
		os.Exit(2)
	}
	h.Run(stripOpts(job))
	for _, n := range sym.Notes {
		fmt.Println("NOTE " + n)
	}
	for _, r := range sym.Reached {
		fmt.Println("REACHED " + r)
	}
	fmt.Printf("NATIVE-DONE failed=%d\n", len(sym.Failed))
	if len(sym.Failed) > 0 {
		os.Exit(7)
	}
}
