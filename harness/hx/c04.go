package hx

import (
	"strconv"
	"strings"

	"github.com/hneemann/parser2"
	"github.com/hneemann/parser2/value"
	"verifharness/sym"
)

// C04 — parsing is total: any input yields an AST or an error, never a panic or hang.
//
// Jobs:
//	free:<cfg>:<N>            N symbolic bytes, each ranging over all 256 values
//	tmpl:<cfg>:<k>:<program>  a valid program with k symbolic bytes overwritten/inserted at
//	                          positions chosen by sym.Choice
//	trunc:<cfg>:<program>     a valid program truncated at a symbolic length
//
// cfg: "val" = value.New().Generate; "g<flags>" = generic Parser[int] with
// flags c(omments) f(comfort) k(eywords).
// Termination: the engine's step budget per path (a path that exceeds it is a
// violation "steps"); goroutine leaks are C12's subject (noleak here).

func init() {
	register(&Harness{Name: "c04", Property: "C04", Jobs: c04Jobs, Run: c04Run})
}

var c04Programs = []string{
	`let a=1;func f(x) x*2;f(a)+[1,2].map(e->e+a).size()`,
	`if a<1 then "x" else switch a case 1:{k:1}.k default try throw("e") catch e->e`,
	`((a,b)->a*b)(2,3)+{x:[1,[2,{y:"s"}]]}.x[1][1].y.len()`,
	`-a^2+!true|a&b // c`,
}

func c04Jobs(tier string, seed int64) []string {
	var jobs []string
	add := func(j string) { jobs = append(jobs, "@noleak=1,steps=3000000@"+j) }
	n := 2
	if tier == "thorough" {
		n = 3
	}
	for _, cfg := range []string{"val", "g", "gcfk"} {
		for k := 0; k <= n; k++ {
			if k == 3 && cfg != "g" {
				continue // three free bytes: ~75k paths; run for the plain generic parser only
			}
			add("free:" + cfg + ":" + strconv.Itoa(k))
		}
	}
	cfgs := []string{"val", "gcfk"}
	for pi, p := range c04Programs {
		for _, cfg := range cfgs {
			if cfg == "val" && strings.Contains(p, "//") {
				continue
			}
			add("trunc:" + cfg + ":" + p)
			// one symbolic byte at every position: ~3000 paths per program; quick: three of the seven combinations
			if tier == "thorough" || (cfg == "gcfk" && (pi == 0 || pi == 3)) || (cfg == "val" && pi == 1) {
				add("tmpl:" + cfg + ":1:" + p)
			}
			// two symbolic bytes in a template exceed 200k paths per program: not registered
		}
	}
	for _, cfg := range cfgs {
		add("suffix:" + cfg + ":3:a+1")
		add("suffix:" + cfg + ":2:f(a")
	}
	// deep nesting (concrete): brackets, parentheses, closures, unterminated literals
	for _, s := range []string{
		strings.Repeat("(", 40) + "1" + strings.Repeat(")", 40), strings.Repeat("[", 40) + strings.Repeat("]", 40),
		strings.Repeat("(", 40), strings.Repeat("{a:", 30), strings.Repeat("x->", 30) + "1", `"abc`, `'abc`, `/* abc`, `"a\`, "1e", "1e+", "1..2",
		strings.Repeat("-", 50) + "1", strings.Repeat("if ", 20), c04Chain(40, "->", "+pi"), c04Chain(40, "->", ""), c04LetChain(40), c04FuncChain(20), "\x00", "a\x00b", "\xff\xfe", "let", "func f(", "switch 1 case",
	} {
		add("conc:val:" + s)
		add("conc:gcfk:" + s)
	}
	return jobs
}

// c04Chain: n nested closures with distinct parameter names whose body refers to the outermost one
// (identifier resolution walks all scopes: must stay linear).
func c04Chain(n int, arrow, tail string) string {
	var sb strings.Builder
	for i := 0; i < n; i++ {
		sb.WriteString("q" + strconv.Itoa(i) + arrow)
	}
	sb.WriteString("q0" + tail)
	return sb.String()
}

func c04LetChain(n int) string {
	var sb strings.Builder
	sb.WriteString("let q0=1; ")
	for i := 1; i < n; i++ {
		sb.WriteString("let q" + strconv.Itoa(i) + "=q" + strconv.Itoa(i-1) + "+q0; ")
	}
	sb.WriteString("q" + strconv.Itoa(n-1))
	return sb.String()
}

func c04FuncChain(n int) string {
	var sb strings.Builder
	for i := 0; i < n; i++ {
		sb.WriteString("func g" + strconv.Itoa(i) + "(x" + strconv.Itoa(i) + ") ")
	}
	sb.WriteString("x0")
	for i := n - 1; i >= 0; i-- {
		sb.WriteString("; g" + strconv.Itoa(i) + "(1)")
	}
	return sb.String()
}

// genericParser builds a Parser[int] in the style of the examples.
func genericParser(flags string) *parser2.Parser[int] {
	p := parser2.NewParser[int]().
		Op("|", "&", "=", "!=", "<", ">", "<=", ">=", "+", "-", "*", "/", "^").
		Unary("-", "!").
		SetNumberParser(parser2.NumberParserFunc[int](func(n string) (int, error) { return strconv.Atoi(n) })).
		SetStringConverter(parser2.StringConverterFunc[int](func(s string) int { return len(s) })).
		TextOperator(map[string]string{"plus": "+", "and": "&"})
	if strings.ContainsRune(flags, 'c') {
		p.AllowComments()
	}
	if strings.ContainsRune(flags, 'f') {
		p.Comfort(true)
	}
	if strings.ContainsRune(flags, 'k') {
		p.SetKeyWords("let", "func", "if", "then", "else", "switch", "case", "default", "try", "catch")
	}
	return p
}

func identsAB() parser2.Identifiers[int] {
	var id parser2.Identifiers[int]
	return id.Add("a").Add("b").AddConst("pi", 3).AddFunc("f")
}

// parseWith parses src under cfg: (ok, errored, panicked).
func parseWith(cfg string, src string) (ast parser2.AST, err error, panicked bool) {
	defer func() {
		if rec := recover(); rec != nil {
			panicked = true
		}
	}()
	if cfg == "val" {
		fg := value.New()
		_, _, err = fg.Generate(src, "a", "b")
		return nil, err, false
	}
	ast, err = genericParser(cfg[1:]).Parse(src, identsAB())
	return ast, err, false
}

func c04Run(job string) {
	parts := strings.SplitN(job, ":", 3)
	kind, cfg, rest := parts[0], parts[1], parts[2]
	var src string
	switch kind {
	case "free":
		n, _ := strconv.Atoi(rest)
		bs := make([]byte, n)
		for i := range bs {
			bs[i] = sym.Byte("b" + strconv.Itoa(i))
		}
		src = string(bs)
	case "conc":
		src = rest
	case "trunc":
		n := sym.Choice("len", len(rest))
		src = rest[:n]
	case "suffix":
		// program followed by k symbolic bytes over a small alphabet of token starts
		ks, prog, _ := strings.Cut(rest, ":")
		k, _ := strconv.Atoi(ks)
		bs := []byte(prog)
		for i := 0; i < k; i++ {
			b := sym.Byte("s" + strconv.Itoa(i))
			in := false
			for _, c := range []byte(" )]2a,\"+}") {
				in = sym.Or(in, b == c)
			}
			sym.Assume(in)
			bs = append(bs, b)
		}
		src = string(bs)
	case "tmpl":
		ks, prog, _ := strings.Cut(rest, ":")
		k, _ := strconv.Atoi(ks)
		bs := []byte(prog)
		for i := 0; i < k; i++ {
			pos := sym.Choice("pos"+strconv.Itoa(i), len(bs))
			mode := sym.Choice("mode"+strconv.Itoa(i), 2)
			b := sym.Byte("b" + strconv.Itoa(i))
			if mode == 0 {
				bs[pos] = b
			} else {
				bs = append(bs[:pos], append([]byte{b}, bs[pos:]...)...)
			}
		}
		src = string(bs)
	default:
		panic("c04: unknown job " + job)
	}
	ast, err, panicked := parseWith(cfg, src)
	sym.Assert(!panicked, "no-panic")
	if !panicked && cfg != "val" {
		sym.Assert((ast == nil) != (err == nil), "ast-xor-error")
	}
	sym.Reach("end")
}
