package hx

import (
	"github.com/hneemann/parser2/value"
	"verifharness/sym"
)

// C10 — a generated function is a pure function of its arguments across evaluations.
//
// Job = program over the arguments a, b.  Two independent SYMBOLIC tuples x and
// y; the evaluation sequence pattern is chosen by sym.Choice:
//
//	0: f(x) f(y) f(x)                 1: f(x) f(failing) f(x)
//	2: f(x) half-consume f(y) f(x)    3: f(x) Generate+evaluate other functions on the same generator f(x)
//	4: f(y) f(y) f(x) f(x)            5: f(x) [result dropped] f(x) f(y) f(x)
//
// Every evaluation must equal the first evaluation with the same tuple
// (self-composition) and the reference evaluator; lazy results are forced only
// at the very end, after all other evaluations.

func init() {
	register(&Harness{Name: "c10", Property: "C10", Jobs: c10Jobs, Run: c10Run})
}

var c10Progs = []string{
	`a*2+b`,
	// slices of constant lists extended per evaluation; constant lazy stage lists iterated by every evaluation
	`let c=[1,2,3,4]; [c.top(2).append(a), c, c.top(2).append(b), c.skip(2).append(a)]`,
	`let c=[1,2,3].map(x->x).eval(); [c.top(1).append(a).sum(), c.sum(), c.top(3).append(b)]`,
	`let l=[5,6,7].number((i,x)->x*10+i); [l.sum()+a, l[b%3], l.first()]`,
	`let l=[5,6,7,8].combine((p,q)->p-q); [l.sum(), l.first()+a, l.size(), l[b%3]]`,
	`let l=[1,2,3].iir(x->x,(x,o)->o+x); [l.last()+a, l.first(), l.sum()+b]`,
	`let l=[1,2,3,4].combineN(2,w->w[0]*w[1]); [l.sum()+a, l.first()+b, l.size()]`,
	`let l=numbers(4).fsm((s,x)->goto((s.state+x)%3)).map(s->s.state); [l.sum()+a, l.first()+b]`,
	`let l=[3,1,2].compact((p,q)->p=q).number((i,x)->i); [l.sum()+a, l.last()+b, l.sum()]`,
	// constant lazy lists whose producer fails for one element: the failure is the outcome every time
	`let l=[3,2,0,4].map(x->12%x); try l[a%4] catch b`,
	`let l=[3,2,0,4].map(x->12%x); [try l.size()+a catch b, try l[0] catch b, try l.first() catch a]`,
	`let l=numbers(4).map(x->if x=2 then throw("e") else x); [try l.sum() catch a, try l[0] catch b, try l.top(2).size() catch 0]`,
	// constant lazy concatenations with a part of unknown size, indexed before and after something materialises them
	`let c=[1,2].map(x->x)+[3,4,5].accept(x->x>0); [try c[a%5] catch b, c.size(), try c[a%5] catch b]`,
	`let c=[1,2,3].accept(x->x>1)+[7].map(x->x); [try c[a%3] catch b, try c[2] catch 0-1, c.size()]`,
	`let c=numbers(3).accept(x->x>=0)+numbers(2).accept(x->x>=0); try c[a%6]+b catch 0-b`,
	// constant LAZY lists (folded, not yet evaluated) as receivers of the operations that work on a copy
	`let l=[1,2,3].map(x->x*2); [l.set(a%3,b), l]`,
	`[3,1,2].map(x->x*2).order(x->x*(a%2*2-1)).append(b)`,
	`let l=[1,2,3].map(x->x+1); [l.reverse()[a%3]+b, l[0]]`,
	`let l=[1,2,3,4].map(x->x*2); [[2,4,b] ~ l, [2,2] ~ l, l.size()]`,
	`let l=numbers(4).map(x->x*3); [l.orderLess((p,q)->(p<q)=(a%2=0))[0]+b, l.orderRev(x->x)[a%4], l[a%4]]`,
	`let l=numbers(3).map(x->x+1); [l.set(0,a).set(1,b), l.set(2,a)]`,
	`let l=numbers(5).map(x->x*2); l[a%5]+l.size()+b`,
	`let l=numbers(5).map(x->x*2); l.append(a).map(x->x+b)`,
	`let c=[1,2].append(3); [c.append(a), c.append(b), c]`,
	`let c=[3,1,2].order(x->x); c.map(x->x*a)+[b]`,
	`numbers(6).map(x->x*a).accept(x->x>b)`,
	`numbers(4).map(x->x+a).reduce((p,q)->p*b+q)`,
	`let f=x->x*a; [f(1), f(b)].map(y->f(y))`,
	`func fac(n) if n<=1 then 1 else n*fac(n-1); fac(a%6)+b`,
	`let m={k:a,j:[b]}; m.put("z",m.j.append(a))`,
	`let m={k:1}.put("j",2); m.replace(o->{k:a}).map((k,v)->v+b)`,
	`try [1,2,3][a] catch b`,
	`if a<b then numbers(3).map(x->x+a) else [b].append(a)`,
	`let l=numbers(4).map(x->x*a); l.top(2)+l.skip(2).map(x->x+b)`,
	`numbers(5).map(x->x+a).combine((p,q)->p*q).iir(x->x,(x,l)->x+l+b)`,
	`let l=[a,b].append(1); let p=l.append(2); let q=l.append(3); [p,q,l]`,
	`"s"+[1,2].size()+(a=b)`,
	`switch a%3 case 0: [b] case 1: {k:b} default numbers(2).map(x->x+b)`,
	`let g=x->y->x*y+a; g(b)(2)+g(2)(b)`,
	`[a,b,3].minMax(x->x).max+[a,b].sum()`,
	`numbers(3).map(i->numbers(2).map(j->i*a+j*b)).map(l->l.sum())`,
	`let l=numbers(3).map(x->x*2); [l, l.reverse(), l.map(x->x+a)]`,
	// call sites whose receiver/operand kinds depend on the arguments
	`(if a<b then [a,b] else {k:a}).size()`,
	`(if a<b then [a,b,a] else {k:a,j:b}).map(if a<b then (x->x+1) else ((k,v)->v+1))`,
	`(if a<b then a else a*1.5)+(if a<b then b*0.5 else b)`,
	`(if a<b then [a] else "s").size()+0`,
	`let v=if a<b then [b,a] else [a]; v.first()+v.last()+v.size()`,
	`(if a<b then {f:x->x+1} else {f:x->x*2,g:1}).f(b)`,
	// constants used as operands of operators and methods that must not modify them
	`[1,2] ~ [a,b,0]`,
	`[[1,2] ~ [a,b,0], [a] ~ [1,2,3], a ~ [1,2,3], [1,2,3]=[a,b,3]]`,
	`let c=[3,1,2]; [c.order(x->x*a), c.orderRev(x->x), c.reverse(), c.top(a%3), c.skip(a%3), c]`,
	`let c=[3,1,2]; [c.set(a%3,b), c.append(a), c+[b], c.map(x->x+a), c.accept(x->x>a%4), c]`,
	`let c=[3,1,2]; [c.combine((p,q)->p+q+a), c.iir(x->x,(x,l)->x+l+b), c.number((i,x)->i+x+a), c.compact((p,q)->p=a), c]`,
	`let c=[3,1,2]; [c.minMax(x->x*a).max, c.sum()+a, c.reduce((p,q)->p*b+q), c.indexWhere(x->x=a%4), c.present(x->x=b), c.size()]`,
	`let c=[1,2,2,3]; [c.groupByInt(x->x%2).size()+a, c.uniqueInt(x->x).size()+b, c.cross([a,b],(p,q)->p*q), c.merge([a,b],(p,q)->p<q), c]`,
	`let m={k:1,j:2}; [m.put("z",a), m.replace(o->{k:b}), m.map((k,v)->v+a), m.accept((k,v)->v>a%3), m+{q:b}, m.list().size(), m]`,
	`let m={k:1,j:2}; [m.k+a, m.get("j")+b, m.isAvail("k","z"), "k" ~ m, m.size(), m={j:2,k:a}]`,
	`let s="abc"; [s.cut(a%4,1), s.len()+b, s+s, s.contains("b"), s=s]`,
	`let f=x->x*2; let g=x->[x,f(x)]; [g(a), g(b), f(a)+f(b)]`,
}

func c10Jobs(tier string, seed int64) []string {
	var jobs []string
	for _, p := range c10Progs {
		jobs = append(jobs, p)
	}
	if tier == "thorough" {
		g := &progGen{r: rng(seed, "c10rnd"), args: []string{"a", "b"}}
		for i := 0; i < 200; i++ {
			g.shadow = i%2 == 1
			jobs = append(jobs, g.program())
		}
	}
	return jobs
}

func replaceC(p string) string {
	out := []byte(p)
	for i := range out {
		if out[i] == 'c' && (i == 0 || !isLetterB(out[i-1])) && (i+1 == len(out) || !(isLetterB(out[i+1]) || isDigitB(out[i+1]))) {
			out[i] = '2'
		}
	}
	return string(out)
}

func c10Run(prog string) {
	fg := value.New()
	xa, xb := sym.Int64("xa"), sym.Int64("xb")
	ya, yb := sym.Int64("ya"), sym.Int64("yb")
	// structural uses (indices, recursion depth) stay small
	sym.Assume(sym.And(xa >= 0, xa <= 7))
	sym.Assume(sym.And(ya >= 0, ya <= 7))
	x := []value.Value{value.Int(xa), value.Int(xb)}
	y := []value.Value{value.Int(ya), value.Int(yb)}
	names := []string{"a", "b"}
	ast, perr := vparse(prog)
	if perr != nil {
		sym.Assert(false, "template-parses")
		return
	}
	f := mustGen(fg, prog, names...)
	ref := newRefEval(value.New())
	refOf := func(args []value.Value) res { v, err := ref.Run(ast, names, args); return res{v: v, err: err} }
	pattern := sym.Choice("pattern", 6)
	var xs, ys []res
	switch pattern {
	case 0:
		xs = append(xs, eval(f, x...))
		ys = append(ys, eval(f, y...))
		xs = append(xs, eval(f, x...))
	case 1:
		xs = append(xs, eval(f, x...))
		bad := eval(f, value.String("no"), value.NewList()) // wrong-typed arguments: fails or not, must not matter
		_ = bad
		bad2 := eval(f, value.Int(1)) // too few arguments
		_ = bad2
		xs = append(xs, eval(f, x...))
	case 2:
		xs = append(xs, eval(f, x...))
		ry := eval(f, y...)
		if l, ok := ry.v.(*value.List); ok && ry.ok() {
			// half consume: only the first element is pulled
			for range l.Iterate(emptyStack()) {
				break
			}
		}
		ys = append(ys, ry)
		xs = append(xs, eval(f, x...))
	case 3:
		xs = append(xs, eval(f, x...))
		g := mustGen(fg, "let l=numbers(4).map(x->x+p); l.append(q).reverse()", "p", "q")
		_ = eval(g, y...)
		h, _, herr := fg.Generate("this is ( not a program", "p")
		_, _ = h, herr
		f2 := mustGen(fg, prog, names...) // the same program generated again
		ys = append(ys, eval(f2, y...))
		xs = append(xs, eval(f, x...), eval(f2, x...))
	case 4:
		ys = append(ys, eval(f, y...), eval(f, y...))
		xs = append(xs, eval(f, x...), eval(f, x...))
	default:
		_ = eval(f, x...) // result dropped unconsumed
		xs = append(xs, eval(f, x...))
		ys = append(ys, eval(f, y...))
		xs = append(xs, eval(f, x...))
	}
	// compare only now: lazy results of early evaluations are forced after all later evaluations
	wx, wy := refOf(x), refOf(y)
	for i := len(xs) - 1; i >= 0; i-- {
		sym.Assert(!xs[i].panicked, "no-panic")
		sym.Assert(sameOutcome(xs[i], wx), "evaluation-of-x-matches-reference")
		sym.Assert(sameOutcome(xs[i], xs[0]), "evaluation-of-x-equals-first-evaluation-of-x")
	}
	for i := range ys {
		sym.Assert(sameOutcome(ys[i], wy), "evaluation-of-y-matches-reference")
	}
	sym.Reach("end")
}
