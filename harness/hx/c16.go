package hx

import (
	"strings"

	"github.com/hneemann/parser2/value"
	"verifharness/sym"
)

// C16 — implicit-attribute mode equals explicit member access everywhere.
//
// Job = "<rep>:<program>": the program's free identifiers x, y, z, f (f holds a
// closure) are attributes of the argument map m.  The harness parses the
// program with its own parser, rewrites every free identifier (not a local
// binding, constant or static function) to m.<name> and prints exp'.
// GenerateWithMap(exp,"m") and Generate(exp',"m") are evaluated on the same
// argument map with SYMBOLIC attribute values; rep selects the map
// representation (literal, put chain, merged, replaced, evaluated).

func init() {
	register(&Harness{Name: "c16", Property: "C16", Jobs: c16Jobs, Run: c16Run})
}

var c16Progs = []string{
	`x*2+y`,
	`(p->p+x)(y)`,
	`(p->(q->p*q+x+z)(y))(2)`,
	`(p->(q->(r->p+q+r+x*y)(z))(y))(x)`,
	`func rec(n) if n<=0 then x else rec(n-1)+y; rec(3)`,
	`func g(p) p*x; g(y)+g(z)`,
	`let t=x+1; t*y`,
	`let t=[let u=x*2; u+y][0]; t+z`,
	`func h(p,q) p*10+q; h(x, let t=y*2; t+z)`,
	`[1,2].map(e->e*x+y).sum()`,
	`[x,y,z].map(e->e+x).reduce((p,q)->p+q*z)`,
	`{k:x,j:{i:y}}.j.i+{k:x}.k`,
	`if x<y then z else (p->p+x)(1)`,
	`switch x case y: z default (q->q*y)(2)`,
	`try [1,2][x] catch y+z`,
	`(x->x*2)(y)+x`,
	`let y=5; x+y`,
	`(y->y+x)(z)+y`,
	`func k(x) x+y; k(z)+x`,
	`let pi=x; pi+y`,
	`pi*0+x`,
	`min(x,y)+max(y,z)+abs(x)`,
	`f(x)+f(y)`,
	`[x,y].map(f).sum()`,
	`(g->g(x)+g(z))(f)`,
	`let f2=p->f(p)+x; f2(y)`,
	`m.x+x+m.y*y`,
	`(p->m.z+z+p)(x)`,
	`{x:1,y:2}.x+x`,
	`numbers(3).map(i->i*x).accept(e->e>=y).size()+z`,
	`let add=a->b->a+b+x; add(y)(z)`,
	`func outer(p) func inner(q) p*q+x; inner(y); outer(z)`,
	`true & x<y | false`,
	`sqrt(16)+x`,
	// attributes whose names differ only in letter case from constants, static functions, locals and parameters
	`Pi*x+pi*0`, `Max-min(x,y)+max(1,2)+Min`, `let t=x; T+t`, `(x->x+X)(y)+x`, `func k(X) X+x; k(y)+X`, `Pi+(pi->pi+Pi)(x)`, `let max=x; max+Max`, `(T->T+x)(y)+T`,
	`func rec(N) if N<=0 then T else rec(N-1)+X; rec(2)`,
}

var c16Reps = []string{"lit", "put", "merge", "replace", "eval"}

func c16Jobs(tier string, seed int64) []string {
	var jobs []string
	for i, p := range c16Progs {
		for r, rep := range c16Reps {
			if tier != "thorough" && (i+r)%len(c16Reps) != 0 {
				continue
			}
			jobs = append(jobs, rep+":"+p)
		}
	}
	return jobs
}

var c16Consts = map[string]bool{"pi": true, "true": true, "false": true}

// c16Rewrite rewrites free identifiers to member accesses on m.
func c16Rewrite(n *vnode, bound []string, isStatic func(string) bool) *vnode {
	has := func(name string) bool {
		for _, b := range bound {
			if b == name {
				return true
			}
		}
		return false
	}
	cp := &vnode{k: n.k, s: n.s, names: n.names}
	switch n.k {
	case "var":
		if has(n.s) || c16Consts[n.s] || n.s == "m" {
			return cp
		}
		return &vnode{k: "mem", s: n.s, kids: []*vnode{{k: "var", s: "m"}}}
	case "let":
		v := c16Rewrite(n.kids[0], bound, isStatic)
		inner := c16Rewrite(n.kids[1], append(append([]string{}, bound...), n.s), isStatic)
		cp.kids = []*vnode{v, inner}
		return cp
	case "func":
		fb := append(append([]string{}, bound...), n.s)
		body := c16Rewrite(n.kids[0], append(append([]string{}, fb...), n.names...), isStatic)
		inner := c16Rewrite(n.kids[1], fb, isStatic)
		cp.kids = []*vnode{body, inner}
		return cp
	case "clo":
		cp.kids = []*vnode{c16Rewrite(n.kids[0], append(append([]string{}, bound...), n.names...), isStatic)}
		return cp
	case "call":
		callee := n.kids[0]
		if callee.k == "var" && !has(callee.s) && isStatic(callee.s) {
			cp.kids = []*vnode{{k: "var", s: callee.s}}
		} else {
			cp.kids = []*vnode{c16Rewrite(callee, bound, isStatic)}
		}
		for _, a := range n.kids[1:] {
			cp.kids = append(cp.kids, c16Rewrite(a, bound, isStatic))
		}
		return cp
	}
	for _, k := range n.kids {
		cp.kids = append(cp.kids, c16Rewrite(k, bound, isStatic))
	}
	return cp
}

func c16Run(job string) {
	rep, prog := split2(job)
	fg := value.New()
	x, y, z := value.Int(sym.Int64("x")), value.Int(sym.Int64("y")), value.Int(sym.Int64("z"))
	sym.Assume(sym.And(x >= 0, x <= 5)) // x is used as an index / recursion bound in some programs
	fclo := eval(mustGen(fg, "p->p*3+1")).v
	var m value.Value
	switch rep {
	case "lit":
		m = value.NewMap(value.RealMap{"x": x, "y": y, "z": z, "f": fclo})
	case "put":
		m = eval(mustGen(fg, `{x:a}.put("y",b).put("z",c).put("f",d)`, "a", "b", "c", "d"), x, y, z, fclo).v
	case "merge":
		m = eval(mustGen(fg, `{x:a,f:d}+{y:b}+{z:c}`, "a", "b", "c", "d"), x, y, z, fclo).v
	case "replace":
		m = eval(mustGen(fg, `{x:0,y:0,z:c,f:d}.replace(o->{x:a,y:b})`, "a", "b", "c", "d"), x, y, z, fclo).v
	default:
		m = eval(mustGen(fg, `({x:a,y:b}+{z:c,f:d}).eval()`, "a", "b", "c", "d"), x, y, z, fclo).v
	}
	// attributes that differ from other names only in letter case
	if mm := eval(mustGen(fg, `m+{Pi:b,Max:c,Min:a,X:b,T:a}`, "m", "a", "b", "c"), m, x, y, z); mm.ok() {
		m = mm.v
	} else {
		sym.Assert(false, "extended-map-builds")
		return
	}
	ast, err := vparse(prog)
	if err != nil {
		sym.Assert(false, "template-parses")
		return
	}
	isStatic := func(name string) bool {
		switch name {
		case "min", "max", "abs", "sqrt", "numbers", "string", "throw", "sign", "sqr":
			return true
		}
		return false
	}
	explicit := vprint(c16Rewrite(ast, nil, isStatic))
	sym.Note("explicit: " + explicit)
	f1, _, e1 := fg.GenerateWithMap(prog, "m")
	f2, _, e2 := fg.Generate(explicit, "m")
	sym.Assert((e1 == nil) == (e2 == nil), "both-generate-or-neither")
	if e1 != nil || e2 != nil {
		sym.Reach("end")
		return
	}
	r1, r2 := eval(f1, m), eval(f2, m)
	sym.Assert(!r1.panicked && !r2.panicked, "no-panic")
	sym.Assert(sameOutcome(r1, r2), "implicit-equals-explicit")
	if !strings.Contains(prog, "[1,2][x]") {
		sym.Assert(r1.ok(), "defined")
	}
	sym.Reach("end")
}
