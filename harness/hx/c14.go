package hx

import (
	"github.com/hneemann/parser2/value"
	"verifharness/sym"
)

// C14 — equality and ordering operators obey their algebraic laws.
//
// Job = "<law>:<kinds>"; kinds are letters of mk().  Structure (law, kinds,
// container shapes) is enumerated, every payload is symbolic.

func init() {
	register(&Harness{Name: "c14", Property: "C14", Jobs: c14Jobs, Run: c14Run})
}

func c14Jobs(tier string, seed int64) []string {
	var jobs []string
	scal := []byte{'I', 'F', 'S', 'B'}
	all := []byte{'I', 'F', 'S', 'B', 'L', 'M', 'C'}
	// pairs
	for _, a := range all {
		for _, b := range all {
			k := string([]byte{a, b})
			jobs = append(jobs, "eqsym:"+k, "derived:"+k)
		}
	}
	// reflexivity
	for _, a := range []byte{'I', 'F', 'S', 's', 'e', 'B', 'L', 'l', 'N', 'M', 'm'} {
		jobs = append(jobs, "refl:"+string(a))
	}
	// representation independence and structure
	jobs = append(jobs, "listeq:II", "listeq:IF", "listeq:FI", "mapeq:Mm", "mapeq:mM", "nested:N")
	// numeric value comparison of Int with Float
	jobs = append(jobs, "numeq:IF", "numlt:IF", "numlt:FI")
	// same-kind comparison by value: IEEE equality and order on floats (+0 = -0, NaN unequal to
	// everything), integer equality and order, byte-wise string equality and order, bool equality;
	// also as list elements and map values
	jobs = append(jobs, "byvalue:F", "byvalue:I", "byvalue:S", "byvalue:B")
	// comparing is an observation: the same comparison gives the same answer again and leaves both operands as they were
	jobs = append(jobs, "repeat:L")
	// transitivity on all eight Int/Float patterns and on strings
	for _, a := range []byte{'I', 'F'} {
		for _, b := range []byte{'I', 'F'} {
			for _, c := range []byte{'I', 'F'} {
				jobs = append(jobs, "trans:"+string([]byte{a, b, c}))
			}
		}
	}
	jobs = append(jobs, "trans:SSS", "trans:sSs")
	// membership, min/max, order, switch
	jobs = append(jobs, "member:I", "member:F", "member:S", "member:FIII", "member:IFFF", "member:IIFI", "member:FIFI", "member:SIII", "member:ISSS", "member:IISI", "member:BIII", "member:IBII", "member:SFSS", "minmax:II", "minmax:IF", "minmax:FF",
		"order:III", "order:IFI", "order:FFF", "switch:II", "switch:IF", "switch:SS", "switch:IS", "switch:BI")
	_ = scal
	return jobs
}

var cmpOps = []string{"=", "!=", "<", ">", "<=", ">="}

func c14Run(job string) {
	law, kinds := split2(job)
	fg := value.New()
	switch law {
	case "eqsym":
		a, b := mk(fg, kinds[0], "a"), mk(fg, kinds[1], "b")
		f := mustGen(fg, "a=b", "a", "b")
		r1, r2 := eval(f, a, b), eval(f, b, a)
		sym.Assert(!r1.panicked && !r2.panicked, "no-panic")
		sym.Assert(r1.ok() == r2.ok(), "eq-sym-errors")
		if r1.ok() && r2.ok() {
			b1, k1 := boolOf(r1)
			b2, k2 := boolOf(r2)
			sym.Assert(k1 && k2, "eq-is-bool")
			sym.Assert(sym.Iff(b1, b2), "eq-symmetric")
		}
		comparable := (isNumKind(kinds[0]) && isNumKind(kinds[1])) || kinds[0] == kinds[1] && kinds[0] != 'C'
		sym.Assert(r1.ok() == comparable, "eq-defined-iff-comparable")
	case "derived":
		a, b := mk(fg, kinds[0], "a"), mk(fg, kinds[1], "b")
		out := map[string]res{}
		for _, op := range cmpOps {
			out[op] = eval(mustGen(fg, "a"+op+"b", "a", "b"), a, b)
			sym.Assert(!out[op].panicked, "no-panic:"+op)
		}
		rev := map[string]res{}
		for _, op := range []string{"<", "<="} {
			rev[op] = eval(mustGen(fg, "b"+op+"a", "a", "b"), a, b)
			sym.Assert(!rev[op].panicked, "no-panic-rev:"+op)
		}
		eqOK := out["="].ok()
		ltOK := out["<"].ok()
		// != is defined exactly when = is, and is its negation
		sym.Assert(out["!="].ok() == eqOK, "neq-defined")
		if eqOK && out["!="].ok() {
			e, _ := boolOf(out["="])
			n, isB := boolOf(out["!="])
			sym.Assert(isB, "neq-is-bool")
			sym.Assert(sym.Iff(n, sym.Not(e)), "neq-negates-eq")
		}
		ordered := (isNumKind(kinds[0]) && isNumKind(kinds[1])) || (isStrKind(kinds[0]) && isStrKind(kinds[1]))
		sym.Assert(ltOK == ordered, "lt-defined-iff-ordered")
		for _, op := range []string{">", "<=", ">="} {
			sym.Assert(out[op].ok() == ordered, "incomparable-gives-error:"+op)
		}
		if ordered && ltOK && eqOK {
			lt, _ := boolOf(out["<"])
			eq, _ := boolOf(out["="])
			gt, g1 := boolOf(out[">"])
			le, g2 := boolOf(out["<="])
			ge, g3 := boolOf(out[">="])
			blt, g4 := boolOf(rev["<"])
			ble, g5 := boolOf(rev["<="])
			sym.Assert(g1 && g2 && g3 && g4 && g5, "derived-are-bool")
			sym.Assert(sym.Iff(gt, blt), "gt-is-flipped-lt")
			sym.Assert(sym.Iff(le, sym.Or(lt, eq)), "le-is-lt-or-eq")
			sym.Assert(sym.Iff(ge, ble), "ge-is-flipped-le")
			sym.Assert(sym.Not(sym.And(lt, blt)), "lt-asymmetric")
			sym.Assert(sym.Not(sym.And(lt, eq)), "lt-excludes-eq")
		}
	case "refl":
		a := mk(fg, kinds[0], "a")
		r := eval(mustGen(fg, "a=a", "a"), a)
		sym.Assert(!r.panicked, "no-panic")
		sym.Assert(r.ok(), "refl-defined")
		if r.ok() {
			b, isB := boolOf(r)
			sym.Assert(isB, "refl-is-bool")
			switch kinds[0] {
			case 'F':
				f := float64(a.(value.Float))
				sym.Assert(sym.Iff(b, f == f), "refl-unless-nan")
			case 'l':
				// contains a float: reflexive unless that float is NaN
				sl, _ := a.(*value.List).ToSlice(emptyStack())
				f := float64(sl[1].(value.Float))
				sym.Assert(sym.Iff(b, f == f), "refl-unless-nan")
			default:
				sym.Assert(b, "reflexive")
			}
		}
		if isNumKind(kinds[0]) || isStrKind(kinds[0]) {
			lt := eval(mustGen(fg, "a<a", "a"), a)
			sym.Assert(lt.ok(), "lt-defined")
			if lt.ok() {
				b, _ := boolOf(lt)
				sym.Assert(sym.Not(b), "lt-irreflexive")
			}
		}
	case "listeq":
		a0, a1 := mk(fg, kinds[0], "a0"), mk(fg, kinds[0], "a1")
		b0, b1 := mk(fg, kinds[1], "b0"), mk(fg, kinds[1], "b1")
		r := eval(mustGen(fg, "[a0,a1]=[b0,b1]", "a0", "a1", "b0", "b1"), a0, a1, b0, b1)
		e0 := eval(mustGen(fg, "a=b", "a", "b"), a0, b0)
		e1 := eval(mustGen(fg, "a=b", "a", "b"), a1, b1)
		sym.Assert(r.ok() && e0.ok() && e1.ok(), "defined")
		if r.ok() && e0.ok() && e1.ok() {
			rb, _ := boolOf(r)
			x0, _ := boolOf(e0)
			x1, _ := boolOf(e1)
			sym.Assert(sym.Iff(rb, sym.And(x0, x1)), "list-eq-elementwise")
		}
		// different lengths are unequal, lazily produced lists compare like literal ones
		r2 := eval(mustGen(fg, "[a0,a1]=[b0]", "a0", "a1", "b0"), a0, a1, b0)
		if b, ok := boolOf(r2); ok {
			sym.Assert(sym.Not(b), "list-eq-length")
		} else {
			sym.Assert(false, "list-eq-length-defined")
		}
		// the same two lists in other representations (lazy, concatenated, sized/unsized, evaluated) compare alike
		for _, form := range []string{
			"[a0,a1].map(x->x)=[b0,b1].reverse().reverse()",
			"([a0].accept(x->true)+[a1])=[b0,b1]",
			"[b0,b1]=([a0]+[a1].accept(x->true))",
			"([a0].map(x->x)+[a1].map(x->x))=[b0].append(b1)",
			"[a0,a1,a0].top(2)=[b1,b0,b1].skip(1)",
			"[a0,a1].eval()=numbers(2).map(i->if i=0 then b0 else b1)",
		} {
			r3 := eval(mustGen(fg, form, "a0", "a1", "b0", "b1"), a0, a1, b0, b1)
			if b3, ok := boolOf(r3); ok && r.ok() {
				rb, _ := boolOf(r)
				sym.Assert(sym.Iff(b3, rb), "list-eq-representation:"+form)
			} else {
				sym.Assert(false, "list-eq-representation-defined:"+form)
			}
		}
	case "mapeq":
		a, b := mk(fg, kinds[0], "a"), mk(fg, kinds[1], "b")
		r := eval(mustGen(fg, "a=b", "a", "b"), a, b)
		ra := eval(mustGen(fg, "a.a=b.a & a.b=b.b", "a", "b"), a, b)
		sym.Assert(r.ok() && ra.ok(), "defined")
		if r.ok() && ra.ok() {
			x, _ := boolOf(r)
			y, _ := boolOf(ra)
			sym.Assert(sym.Iff(x, y), "map-eq-keywise")
		}
		// key order and representation do not matter
		r2 := eval(mustGen(fg, "{b:a.b,a:a.a}=a", "a"), a)
		if b2, ok := boolOf(r2); ok {
			sym.Assert(b2, "map-eq-order-independent")
		} else {
			sym.Assert(false, "map-eq-order-defined")
		}
		r3 := eval(mustGen(fg, "{a:a.a}=a", "a"), a)
		if b3, ok := boolOf(r3); ok {
			sym.Assert(sym.Not(b3), "map-eq-size")
		} else {
			sym.Assert(false, "map-eq-size-defined")
		}
	case "nested":
		a0, b0 := mk(fg, 'I', "a"), mk(fg, 'I', "b")
		r := eval(mustGen(fg, "[[a]]=[[b]]", "a", "b"), a0, b0)
		sym.Assert(!r.panicked, "no-panic")
		sym.Assert(r.ok(), "nested-list-eq-defined")
		if x, ok := boolOf(r); ok {
			sym.Assert(sym.Iff(x, a0.(value.Int) == b0.(value.Int)), "nested-list-eq")
		}
		r2 := eval(mustGen(fg, "{k:[a]}={k:[b]}", "a", "b"), a0, b0)
		sym.Assert(r2.ok(), "map-of-list-eq-defined")
		if x, ok := boolOf(r2); ok {
			sym.Assert(sym.Iff(x, a0.(value.Int) == b0.(value.Int)), "map-of-list-eq")
		}
		r3 := eval(mustGen(fg, "[{k:a}]=[{k:b}]", "a", "b"), a0, b0)
		sym.Assert(r3.ok(), "list-of-map-eq-defined")
		if x, ok := boolOf(r3); ok {
			sym.Assert(sym.Iff(x, a0.(value.Int) == b0.(value.Int)), "list-of-map-eq")
		}
	case "repeat":
		x0, x1, y0, y1, y2 := mk(fg, 'I', "x0"), mk(fg, 'I', "x1"), mk(fg, 'I', "y0"), mk(fg, 'I', "y1"), mk(fg, 'I', "y2")
		a := value.NewList(x0, x1)
		b := value.NewList(y0, y1, y2)
		for _, form := range []string{"a ~ b", "b ~ a", "a = b", "a.top(1) ~ b", "[a[1]] ~ a", "a ~ a", "a != b", "a[0] ~ b"} {
			f := mustGen(fg, form, "a", "b")
			r1 := eval(f, a, b)
			r2 := eval(f, a, b)
			sym.Assert(r1.ok() == r2.ok(), "repeat-defined:"+form)
			if v1, ok1 := boolOf(r1); ok1 {
				if v2, ok2 := boolOf(r2); ok2 {
					sym.Assert(sym.Iff(v1, v2), "same-answer-again:"+form)
				}
			}
			sym.Assert(valEq(a, value.NewList(x0, x1)), "left-operand-unchanged:"+form)
			sym.Assert(valEq(b, value.NewList(y0, y1, y2)), "right-operand-unchanged:"+form)
		}
	case "byvalue":
		a, b := mk(fg, kinds[0], "a"), mk(fg, kinds[0], "b")
		var wantEq, wantLt bool
		hasLt := true
		switch kinds[0] {
		case 'F':
			fa, fb := float64(a.(value.Float)), float64(b.(value.Float))
			wantEq, wantLt = fa == fb, fa < fb
		case 'I':
			wantEq, wantLt = a.(value.Int) == b.(value.Int), a.(value.Int) < b.(value.Int)
		case 'S':
			wantEq, wantLt = a.(value.String) == b.(value.String), a.(value.String) < b.(value.String)
		case 'B':
			wantEq, hasLt = sym.Iff(bool(a.(value.Bool)), bool(b.(value.Bool))), false
		}
		for _, form := range []string{"a=b", "[a]=[b]", "[1,a]=[1,b]", "{k:a}={k:b}", "!(a!=b)", "a ~ [b]", "switch a case b: true default false"} {
			r := eval(mustGen(fg, form, "a", "b"), a, b)
			sym.Assert(r.ok(), "defined:"+form)
			if x, ok := boolOf(r); ok {
				sym.Assert(sym.Iff(x, wantEq), "equal-by-value:"+form)
			}
		}
		if hasLt {
			for _, form := range []string{"a<b", "b>a", "!(a>=b)"} {
				r := eval(mustGen(fg, form, "a", "b"), a, b)
				sym.Assert(r.ok(), "defined:"+form)
				if x, ok := boolOf(r); ok && kinds[0] != 'F' {
					sym.Assert(sym.Iff(x, wantLt), "less-by-value:"+form)
				} else if ok && form != "!(a>=b)" {
					sym.Assert(sym.Iff(x, wantLt), "less-by-value:"+form) // with NaN a>=b is false as well
				}
			}
		}
	case "numeq":
		// Int = Float compares numeric values: equal iff the float is that integer
		a, x := mk(fg, 'I', "a"), mk(fg, 'F', "x")
		r := eval(mustGen(fg, "a=x", "a", "x"), a, x)
		sym.Assert(r.ok(), "defined")
		if b, ok := boolOf(r); ok {
			f := float64(x.(value.Float))
			n := int64(a.(value.Int))
			inRange := sym.And(f > -9007199254740992.0, f < 9007199254740992.0)
			// for |f| < 2^53 the conversion int64(f) is exact when f is integral
			integral := sym.And(inRange, float64(int64(f)) == f)
			sym.Assert(sym.Iff(b, sym.And(integral, int64(f) == n)), "int-float-eq-by-value")
		}
	case "numlt":
		a, b := mk(fg, kinds[0], "a"), mk(fg, kinds[1], "b")
		r := eval(mustGen(fg, "a<b", "a", "b"), a, b)
		sym.Assert(r.ok(), "defined")
		if lt, ok := boolOf(r); ok {
			// numeric order on the reals: compare via floor of the float
			var n int64
			var f float64
			intFirst := kinds[0] == 'I'
			if intFirst {
				n, f = int64(a.(value.Int)), float64(b.(value.Float))
			} else {
				f, n = float64(a.(value.Float)), int64(b.(value.Int))
			}
			big := f >= 9007199254740992.0
			small := f <= -9007199254740992.0
			mid := sym.And(sym.Not(big), sym.Not(small))
			isNaN := f != f
			fl := int64(f) // truncation; exact for |f|<2^53
			// n < f  ⇔  n < ceil(f) ... expressed with trunc and sign
			frac := float64(fl) != f
			var want bool
			if intFirst {
				// n < f
				lessMid := sym.Or(n < fl, sym.And(n == fl, sym.And(frac, f > 0)))
				want = sym.And(sym.Not(isNaN), sym.Or(big, sym.And(mid, lessMid)))
			} else {
				// f < n
				lessMid := sym.Or(fl < n, sym.And(fl == n, sym.And(frac, f < 0)))
				want = sym.And(sym.Not(isNaN), sym.Or(small, sym.And(mid, lessMid)))
			}
			sym.Assert(sym.Iff(lt, want), "int-float-lt-by-value")
		}
	case "trans":
		a, b, c := mk(fg, kinds[0], "a"), mk(fg, kinds[1], "b"), mk(fg, kinds[2], "c")
		f := mustGen(fg, "a<b", "a", "b")
		ab, bc, ac := eval(f, a, b), eval(f, b, c), eval(f, a, c)
		sym.Assert(ab.ok() && bc.ok() && ac.ok(), "defined")
		if ab.ok() && bc.ok() && ac.ok() {
			x, _ := boolOf(ab)
			y, _ := boolOf(bc)
			z, _ := boolOf(ac)
			sym.Assert(sym.Implies(sym.And(x, y), z), "lt-transitive")
		}
	case "member":
		// kinds[0] is the kind of x, kinds[1..3] those of the elements (default: all like x)
		ek := func(i int) byte {
			if len(kinds) > i {
				return kinds[i]
			}
			return kinds[0]
		}
		x := mk(fg, kinds[0], "x")
		e0, e1, e2 := mk(fg, ek(1), "e0"), mk(fg, ek(2), "e1"), mk(fg, ek(3), "e2")
		r := eval(mustGen(fg, "x ~ [e0,e1,e2]", "x", "e0", "e1", "e2"), x, e0, e1, e2)
		eq := mustGen(fg, "a=b", "a", "b")
		qs := []res{eval(eq, e0, x), eval(eq, e1, x), eval(eq, e2, x)}
		comparable, some := true, false
		for _, q := range qs {
			if b, ok := boolOf(q); ok {
				some = sym.Or(some, b)
			} else {
				comparable = false
			}
		}
		if comparable {
			sym.Assert(r.ok(), "defined")
			if m, ok := boolOf(r); ok {
				sym.Assert(sym.Iff(m, some), "member-iff-some-element-equal")
			}
		} else if m, ok := boolOf(r); ok {
			// an element that cannot be compared with x: an error, or true because a comparable
			// element equals x - never "false"
			sym.Assert(sym.And(m, some), "member-incomparable-never-false")
		}
		r0 := eval(mustGen(fg, "x ~ []", "x"), x)
		if m, ok := boolOf(r0); ok {
			sym.Assert(sym.Not(m), "member-empty")
		} else {
			sym.Assert(false, "member-empty-defined")
		}
	case "minmax":
		a, b := mk(fg, kinds[0], "a"), mk(fg, kinds[1], "b")
		lt := eval(mustGen(fg, "a<b", "a", "b"), a, b)
		gt := eval(mustGen(fg, "b<a", "a", "b"), a, b)
		mn := eval(mustGen(fg, "min(a,b)", "a", "b"), a, b)
		mx := eval(mustGen(fg, "max(a,b)", "a", "b"), a, b)
		eq := mustGen(fg, "x=y", "x", "y")
		sym.Assert(lt.ok() && gt.ok() && mn.ok() && mx.ok(), "defined")
		if lt.ok() && gt.ok() && mn.ok() && mx.ok() {
			l, _ := boolOf(lt)
			g, _ := boolOf(gt)
			mnA, _ := boolOf(eval(eq, mn.v, a))
			mnB, _ := boolOf(eval(eq, mn.v, b))
			mxA, _ := boolOf(eval(eq, mx.v, a))
			mxB, _ := boolOf(eval(eq, mx.v, b))
			nan := false
			if kinds[0] == 'F' {
				f := float64(a.(value.Float))
				nan = sym.Or(nan, f != f)
			}
			if kinds[1] == 'F' {
				f := float64(b.(value.Float))
				nan = sym.Or(nan, f != f)
			}
			// min is an operand that no operand is less than (NaN excluded: unordered)
			sym.Assert(sym.Or(nan, sym.Implies(l, mnA)), "min-agrees-with-lt")
			sym.Assert(sym.Or(nan, sym.Implies(g, mnB)), "min-agrees-with-gt")
			sym.Assert(sym.Or(nan, sym.Implies(l, mxB)), "max-agrees-with-lt")
			sym.Assert(sym.Or(nan, sym.Implies(g, mxA)), "max-agrees-with-gt")
			sym.Assert(sym.Or(nan, sym.Or(mnA, mnB)), "min-is-an-operand")
			sym.Assert(sym.Or(nan, sym.Or(mxA, mxB)), "max-is-an-operand")
		}
	case "order":
		a, b, c := mk(fg, kinds[0], "a"), mk(fg, kinds[1], "b"), mk(fg, kinds[2], "c")
		nan := false
		for k, v := range []value.Value{a, b, c} {
			if kinds[k] == 'F' {
				f := float64(v.(value.Float))
				nan = sym.Or(nan, f != f)
			}
		}
		sym.Assume(sym.Not(nan))
		r := eval(mustGen(fg, "[a,b,c].order(x->x)", "a", "b", "c"), a, b, c)
		sym.Assert(r.ok(), "defined")
		if r.ok() {
			l, isL := r.v.(*value.List)
			sym.Assert(isL, "order-is-list")
			sl, err := l.ToSlice(emptyStack())
			sym.Assert(err == nil && len(sl) == 3, "order-size")
			if err == nil && len(sl) == 3 {
				lt := mustGen(fg, "x<y", "x", "y")
				d1, _ := boolOf(eval(lt, sl[1], sl[0]))
				d2, _ := boolOf(eval(lt, sl[2], sl[1]))
				sym.Assert(sym.Not(d1), "order-sorted-01")
				sym.Assert(sym.Not(d2), "order-sorted-12")
				// permutation: every input equals some output and vice versa (multiset on 3 elements via counting)
				eq := mustGen(fg, "x=y", "x", "y")
				in := []value.Value{a, b, c}
				for i := 0; i < 3; i++ {
					var cin, cout int64
					for j := 0; j < 3; j++ {
						e1, _ := boolOf(eval(eq, in[i], in[j]))
						e2, _ := boolOf(eval(eq, in[i], sl[j]))
						cin += sym.IteInt(e1, 1, 0)
						cout += sym.IteInt(e2, 1, 0)
					}
					sym.Assert(cin == cout, "order-permutation")
				}
			}
		}
	case "switch":
		a, b := mk(fg, kinds[0], "a"), mk(fg, kinds[1], "b")
		r := eval(mustGen(fg, "switch a case b: 1 default 0", "a", "b"), a, b)
		e := eval(mustGen(fg, "a=b", "a", "b"), a, b)
		sym.Assert(!r.panicked, "no-panic")
		sym.Assert(r.ok() == e.ok(), "switch-defined-iff-eq-defined")
		if r.ok() && e.ok() {
			eq, _ := boolOf(e)
			n, isI := r.v.(value.Int)
			sym.Assert(isI, "switch-result")
			sym.Assert(sym.Iff(eq, n == 1), "switch-agrees-with-eq")
		}
	default:
		panic("c14: unknown law " + law)
	}
	sym.Reach("end")
}
