package hx

import (
	"strconv"
	"strings"

	"github.com/hneemann/parser2/value"
	"verifharness/sym"
)

// C01 — compiled evaluation equals lexically scoped reference semantics.
//
// Job = "<family>:<program>"; programs use the arguments a, b, c (symbolic
// 64-bit ints).  Families: "mx" the binder × slot × context matrix, "hand"
// hand-written programs, "rnd" seeded random programs.

func init() {
	register(&Harness{Name: "c01", Property: "C01", Jobs: c01Jobs, Run: c01Run})
}

var c01Binders = []string{
	`let t#=b*2; t#+1`,
	`func g#(x#) x#*3+b; g#(a)`,
	`(x#->x#+b)(a*2)`,
	`if a<b then let t#=a+1; t#*2 else let u#=b+1; u#*3`,
	`switch a case 1: let t#=b; t#+1 default let u#=a*b; u#`,
	`try let t#=a*2; t#+b catch 0`,
	`try throw("e") catch let t#=b+5; t#`,
	`let f#=x#->y#->x#*10+y#+b; f#(a)(2)`,
	`let m#={k:x#->x#+b}; m#.k(a)`,
}

var c01Slots = []string{
	`@`,
	`func f1(p,q) p*100+q; f1(@,a)`,
	`func f2(p,q) p*100+q; f2(a,@)`,
	`func f3(p,q,r) p*100+q*10+r; f3(a,b,@)`,
	`((p,q)->p*100+q)(a,@)`,
	`{f:(p,q)->p*100+q}.f(a,@)`,
	`[a,@,b][1]`,
	`{k:a,v:@}.v`,
	`[a,b].append(@)[2]`,
	`[a,b].set(1,@)[1]`,
	`(e->@)(5)`,
	`min(a,@)+max(@,b)`,
	`if a<b then @ else 0`,
	`switch a case 1: 0 default @`,
	`try @ catch 0`,
	`[1,2].map(e->@)[1]`,
}

var c01Contexts = []string{
	`@`,
	`let o=c+1; func w(d) @; w(0)+o`,
	`(z->@)(c)+c`,
	`(z->(y->@)(z+1))(c)`,
	`func rec(n) if n<=0 then @ else rec(n-1)+1; rec(2)`,
	`let o=c*2; [1].map(z->@)[0]+o`,
}

var c01Hand = []string{
	`let x=a+1; let y=x*b; x+y+c`,
	`func fac(n) if n<=1 then 1 else n*fac(n-1); fac(5)+a`,
	`func fib(n) if n<=2 then 1 else fib(n-1)+fib(n-2); fib(7)*b`,
	`let add=x->y->z->x*100+y*10+z; add(a)(b)(c)`,
	`func mk(k) x->x*k+c; let f=mk(a); let g=mk(b); f(1)+g(2)`,
	`let m={f:x->x+a,g:(x,y)->x*y+b}; m.f(1)+m.g(2,3)`,
	`let x=a; (x->x*2)(b)+x`,
	`let pi=a; pi+1`,
	`(pi->pi+1)(a)`,
	`func f(a) a+1; f(b)+a`,
	`let l=[a,b,c].map(e->e*2); l[0]+l[1]+l[2]`,
	`[a,b,c].reduce((p,q)->p+q)`,
	`[a,b,c].map(e->(x->x+e)(1)).sum()`,
	`let k=a*10; let f=x->try [1,2][x] catch k; f(5)`,
	`func pow(n) if n=0 then 1 else a*pow(n-1); pow(3)`,
	`func outer(x) func inner(y) x*y+a; inner(b); outer(c)`,
	`let f=x->let y=x*2; let z=y+a; z*b; f(c)`,
	`switch a case b: 1 case c: 2 default 3`,
	`if a<b & b<c then 1 else if a=b | b=c then 2 else 3`,
	`try (if a<b then throw("lt") else a) catch e->e`,
	`let g=(p,q,r)->p+q*2+r*3; g(a,b,c)+g(c,b,a)`,
	`{x:a,y:{z:b}}.y.z+{x:a}.x`,
	`[[a,b],[c]][0][1]+[[a,b],[c]][1][0]`,
	`let f=x->x+1; let g=f; g(a)+f(b)`,
	`func twice(f,x) f(f(x)); twice(y->y*a,b)`,
	`let m={v:a}; let n=m.put("w",b); n.v+n.w+m.v`,
	`let l=[a]; let l2=l.append(b); l.size()*10+l2.size()`,
	`func count(n) if n=0 then 0 else 1+count(n-1); count(6)+a`,
	`let f=x->y->x+y; let g=f(a); g(b)+g(c)`,
	`func even(n) if n=0 then true else !even(n-1); if even(4) then a else b`,
}

func c01Expand(t string, id int) string { return strings.ReplaceAll(t, "#", strconv.Itoa(id)) }

func c01Matrix() []string {
	var out []string
	id := 0
	for _, c := range c01Contexts {
		for _, s := range c01Slots {
			for _, b := range c01Binders {
				id++
				n := strings.Count(s, "@")
				prog := s
				for k := 0; k < n; k++ {
					prog = strings.Replace(prog, "@", c01Expand(b, id*10+k), 1)
				}
				out = append(out, strings.Replace(c, "@", prog, 1))
			}
		}
	}
	return out
}

func c01Jobs(tier string, seed int64) []string {
	var jobs []string
	mx := c01Matrix()
	r := rng(seed, "c01")
	for i, p := range mx {
		// quick: every cell of binder×slot at top level, other contexts sampled 1 in 6
		if tier == "thorough" || i < len(c01Slots)*len(c01Binders) || r.Intn(6) == 0 {
			jobs = append(jobs, "mx:"+p)
		}
	}
	for _, p := range c01Hand {
		jobs = append(jobs, "hand:"+p)
	}
	n := 60
	if tier == "thorough" {
		n = 1500
	}
	g := &progGen{r: rng(seed, "c01rnd")}
	for i := 0; i < n; i++ {
		jobs = append(jobs, "rnd:"+g.program())
	}
	return jobs
}

func c01Run(job string) {
	_, prog := split2(job)
	fg := value.New()
	a, b, c := sym.Int64("a"), sym.Int64("b"), sym.Int64("c")
	args := []value.Value{value.Int(a), value.Int(b), value.Int(c)}
	names := []string{"a", "b", "c"}
	ast, perr := vparse(prog)
	if perr != nil {
		sym.Note("reference parser rejects the template: " + perr.Error())
		sym.Assert(false, "template-parses")
		return
	}
	f, _, gerr := fg.Generate(prog, names...)
	ref := newRefEval(value.New())
	want := func() res { v, err := ref.Run(ast, names, args); return res{v: v, err: err} }()
	if gerr != nil {
		// a well-formed program must be generated, unless the reference fails on it for every input too
		sym.Assert(!want.ok(), "well-formed-program-is-generated")
		sym.Reach("end")
		return
	}
	got := eval(f, args...)
	sym.Assert(!got.panicked, "no-panic")
	sym.Assert(sameOutcome(got, want), "same-outcome-as-reference")
	sym.Reach("end")
}

// ---- seeded random programs (int-typed expressions with binders) ----

type progGen struct {
	r interface{ Intn(int) int }
	n int
}

func (g *progGen) fresh(p string) string { g.n++; return p + strconv.Itoa(g.n) }

func (g *progGen) program() string {
	g.n = 0
	return g.letpos(3, []string{"a", "b", "c"})
}

// letpos generates an expression for a let-position (may start with let/func).
func (g *progGen) letpos(d int, vars []string) string {
	if d > 0 {
		switch g.r.Intn(5) {
		case 0:
			n := g.fresh("v")
			return "let " + n + "=" + g.expr(d-1, vars) + "; " + g.letpos(d-1, append(append([]string{}, vars...), n))
		case 1:
			f, p := g.fresh("f"), g.fresh("p")
			body := g.letpos(d-1, append(append([]string{}, vars...), p))
			return "func " + f + "(" + p + ") " + body + "; " + f + "(" + g.letpos(d-1, vars) + ")+" + g.expr(d-1, vars)
		}
	}
	return g.expr(d, vars)
}

func (g *progGen) expr(d int, vars []string) string {
	if d <= 0 {
		if g.r.Intn(3) == 0 {
			return strconv.Itoa(g.r.Intn(7))
		}
		return vars[g.r.Intn(len(vars))]
	}
	switch g.r.Intn(12) {
	case 0, 1:
		return "(" + g.expr(d-1, vars) + []string{"+", "-", "*"}[g.r.Intn(3)] + g.expr(d-1, vars) + ")"
	case 2:
		p := g.fresh("x")
		return "(" + p + "->" + g.letpos(d-1, append(append([]string{}, vars...), p)) + ")(" + g.letpos(d-1, vars) + ")"
	case 3:
		p, q := g.fresh("x"), g.fresh("y")
		return "((" + p + "," + q + ")->" + g.letpos(d-1, append(append([]string{}, vars...), p, q)) + ")(" + g.letpos(d-1, vars) + "," + g.letpos(d-1, vars) + ")"
	case 4:
		return "(if " + g.expr(d-1, vars) + "<" + g.expr(d-1, vars) + " then " + g.letpos(d-1, vars) + " else " + g.letpos(d-1, vars) + ")"
	case 5:
		return "(switch " + g.expr(d-1, vars) + " case " + strconv.Itoa(g.r.Intn(3)) + ": " + g.letpos(d-1, vars) + " default " + g.letpos(d-1, vars) + ")"
	case 6:
		return "(try " + g.letpos(d-1, vars) + " catch " + g.letpos(d-1, vars) + ")"
	case 7:
		return "[" + g.letpos(d-1, vars) + "," + g.letpos(d-1, vars) + "][" + strconv.Itoa(g.r.Intn(2)) + "]"
	case 8:
		p := g.fresh("e")
		return "[" + g.expr(d-1, vars) + "," + g.expr(d-1, vars) + "].map(" + p + "->" + g.letpos(d-1, append(append([]string{}, vars...), p)) + ").sum()"
	case 9:
		return "{k:" + g.letpos(d-1, vars) + ",j:" + g.letpos(d-1, vars) + "}." + []string{"k", "j"}[g.r.Intn(2)]
	case 10:
		p, q := g.fresh("x"), g.fresh("y")
		return "(" + p + "->" + q + "->" + g.expr(d-1, append(append([]string{}, vars...), p, q)) + ")(" + g.expr(d-1, vars) + ")(" + g.letpos(d-1, vars) + ")"
	default:
		return "min(" + g.letpos(d-1, vars) + "," + g.letpos(d-1, vars) + ")"
	}
}
