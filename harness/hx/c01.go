package hx

import (
	"strconv"
	"strings"

	"github.com/hneemann/parser2/value"
	"verifharness/sym"
)

// C01 — compiled evaluation equals lexically scoped reference semantics.
//
// Job = "<family>:<program>"; programs use the arguments a, b, c (symbolic
// 64-bit ints).  Families: "mx" the binder × slot × context matrix, "hand"
// hand-written programs, "rnd" seeded random programs.

func init() {
	register(&Harness{Name: "c01", Property: "C01", Jobs: c01Jobs, Run: c01Run})
}

var c01Binders = []string{
	`let t#=b*2; t#+1`,
	`func g#(x#) x#*3+b; g#(a)`,
	`(x#->x#+b)(a*2)`,
	`if a<b then let t#=a+1; t#*2 else let u#=b+1; u#*3`,
	`switch a case 1: let t#=b; t#+1 default let u#=a*b; u#`,
	`try let t#=a*2; t#+b catch 0`,
	`try throw("e") catch let t#=b+5; t#`,
	`let f#=x#->y#->x#*10+y#+b; f#(a)(2)`,
	`let m#={k:x#->x#+b}; m#.k(a)`,
}

var c01Slots = []string{
	`@`,
	`func f1(p,q) p*100+q; f1(@,a)`,
	`func f2(p,q) p*100+q; f2(a,@)`,
	`func f3(p,q,r) p*100+q*10+r; f3(a,b,@)`,
	`((p,q)->p*100+q)(a,@)`,
	`{f:(p,q)->p*100+q}.f(a,@)`,
	`[a,@,b][1]`,
	`{k:a,v:@}.v`,
	`[a,b].append(@)[2]`,
	`[a,b].set(1,@)[1]`,
	`(e->@)(5)`,
	`min(a,@)+max(@,b)`,
	`if a<b then @ else 0`,
	`switch a case 1: 0 default @`,
	`try @ catch 0`,
	`[1,2].map(e->@)[1]`,
}

var c01Contexts = []string{
	`@`,
	`let o=c+1; func w(d) @; w(0)+o`,
	`(z->@)(c)+c`,
	`(z->(y->@)(z+1))(c)`,
	`func rec(n) if n<=0 then @ else rec(n-1)+1; rec(2)`,
	`let o=c*2; [1].map(z->@)[0]+o`,
}

var c01Hand = []string{
	`let x=a+1; let y=x*b; x+y+c`,
	`func fac(n) if n<=1 then 1 else n*fac(n-1); fac(5)+a`,
	`func fib(n) if n<=2 then 1 else fib(n-1)+fib(n-2); fib(7)*b`,
	`let add=x->y->z->x*100+y*10+z; add(a)(b)(c)`,
	`func mk(k) x->x*k+c; let f=mk(a); let g=mk(b); f(1)+g(2)`,
	`let m={f:x->x+a,g:(x,y)->x*y+b}; m.f(1)+m.g(2,3)`,
	`let x=a; (x->x*2)(b)+x`,
	`let pi=a; pi+1`,
	`(pi->pi+1)(a)`,
	`func f(a) a+1; f(b)+a`,
	`let l=[a,b,c].map(e->e*2); l[0]+l[1]+l[2]`,
	`[a,b,c].reduce((p,q)->p+q)`,
	`[a,b,c].map(e->(x->x+e)(1)).sum()`,
	`let k=a*10; let f=x->try [1,2][x] catch k; f(5)`,
	`func pow(n) if n=0 then 1 else a*pow(n-1); pow(3)`,
	`func outer(x) func inner(y) x*y+a; inner(b); outer(c)`,
	`let f=x->let y=x*2; let z=y+a; z*b; f(c)`,
	`switch a case b: 1 case c: 2 default 3`,
	`if a<b & b<c then 1 else if a=b | b=c then 2 else 3`,
	`try (if a<b then throw("lt") else a) catch e->e`,
	`let g=(p,q,r)->p+q*2+r*3; g(a,b,c)+g(c,b,a)`,
	`{x:a,y:{z:b}}.y.z+{x:a}.x`,
	`[[a,b],[c]][0][1]+[[a,b],[c]][1][0]`,
	`let f=x->x+1; let g=f; g(a)+f(b)`,
	`func twice(f,x) f(f(x)); twice(y->y*a,b)`,
	`let m={v:a}; let n=m.put("w",b); n.v+n.w+m.v`,
	`let l=[a]; let l2=l.append(b); l.size()*10+l2.size()`,
	`func count(n) if n=0 then 0 else 1+count(n-1); count(6)+a`,
	`let f=x->y->x+y; let g=f(a); g(b)+g(c)`,
	`func even(n) if n=0 then true else !even(n-1); if even(4) then a else b`,
	// shadowing: a closure or func body that uses a captured outer name and binds the same name itself
	`let y=a+1; let f=x->[y, let y=x*2; y]; f(b)`,
	`let y=a+1; func g(x) [y, let y=x*3; y, y]; g(b)`,
	`let y=a; let f=x->(y->y+x)(x*2)+y; f(b)`,
	`let y=a; let f=x->y+(try let y=x+1; y*2 catch 0); f(b)`,
	`let t=c*2; [1,2].map(e->t+[let t=e*a; t][0]).sum()`,
	`let y=a; func g(x) if x<b then y else [let y=x+1; y][0]+y; g(c)`,
	`let y=a; let f=x->let g=z->[y, let y=z+x; y][1]+y; g(b); f(c)`,
	`let y=a; (y->y*2)(b)+(x->let y=x+1; y)(c)+y`,
	// a lazy closure-calling stage bound by let, further argument-dependent lets, then the consumption
	`let l=[a,b,c].combine((p,q)->p+q); let u=a*2; let v=b*3; l.sum()+u*100+v*10000`,
	`let l=[a,b,c].map(e->e+1); let u=a*2; let v=b*3; l.sum()+u*100+v*10000`,
	`let l=[a,b,c].number((i,e)->e*i); let u=a-1; let v=c*5; [l.sum(),u,v]`,
	`let l=[a,b,c].combine3((p,q,r)->p-q+r); let u=a+7; let v=u*b; [l.first(),u,v]`,
	`let l=[a,b,c].iir(e->e,(e,o)->o*2+e); let u=b; let v=c-a; [l.last(),u,v]`,
	`let l=[a,b,c].accept(e->e>b); let u=a*a; let v=u+c; [l.size(),u,v]`,
	`let l=[a,b,c].compact((p,q)->p=q); let u=c; let v=u-b; [l.size(),u,v]`,
	`let l=[a,b].cross([c,1],(p,q)->p*q); let u=a+b; let v=u*c; [l.sum(),u,v]`,
	`let l=[a,b,c].merge([b],(p,q)->p<q); let u=a*3; let v=b+u; [l.first(),u,v]`,
	`let l=[a,b,c].combineN(2,w->w[0]-w[1]); let u=a; let v=b*b; [l.sum(),u,v]`,
	`func g(x) let l=[x,a].combine((p,q)->p*q); let u=x+1; let v=u+b; l.sum()+u*10+v*100; g(c)`,
	`let l=[a,b].append(c); let p=l+[1]; let q=l+[2]; [p,q,l]`,
	`let l=[a,b,c].map(e->e).eval(); let p=l.top(2).append(7); let q=l.top(2).append(8); [p,q,l]`,
	// recursion from inside a nested closure or an inner func
	`func f(n) if n<=0 then a else [1].map(e->f(n-1)+e)[0]; f(2)+b`,
	`func f(n) let g=k->if k<=0 then b else f(k-1)+1; g(n); f(3)+a`,
	`func f(n) func h(k) if k<=0 then c else f(k-1)*2; h(n); f(2)`,
	// constant conditions that are no bools are errors, not the else branch
	`if 1 then a else b`,
	`(x->if "s" then x else 0)(a)`,
	`switch a case b: (if 0 then 1 else 2) default 3`,
	`try (if 2 then a else b) catch c`,
}

func c01Expand(t string, id int) string { return strings.ReplaceAll(t, "#", strconv.Itoa(id)) }

func c01Matrix() []string {
	var out []string
	id := 0
	for _, c := range c01Contexts {
		for _, s := range c01Slots {
			for _, b := range c01Binders {
				id++
				n := strings.Count(s, "@")
				prog := s
				for k := 0; k < n; k++ {
					prog = strings.Replace(prog, "@", c01Expand(b, id*10+k), 1)
				}
				out = append(out, strings.Replace(c, "@", prog, 1))
			}
		}
	}
	return out
}

func c01Jobs(tier string, seed int64) []string {
	var jobs []string
	mx := c01Matrix()
	r := rng(seed, "c01")
	for i, p := range mx {
		// quick: every cell of binder×slot at top level, other contexts sampled 1 in 6
		if tier == "thorough" || i < len(c01Slots)*len(c01Binders) || r.Intn(6) == 0 {
			jobs = append(jobs, "mx:"+p)
		}
	}
	for _, p := range c01Hand {
		jobs = append(jobs, "hand:"+p)
	}
	n := 60
	if tier == "thorough" {
		n = 1500
	}
	g := &progGen{r: rng(seed, "c01rnd")}
	for i := 0; i < n; i++ {
		g.shadow = i%2 == 1 // every second program reuses visible names (shadowing)
		jobs = append(jobs, "rnd:"+g.program())
	}
	return jobs
}

func c01Run(job string) {
	_, prog := split2(job)
	fg := value.New()
	a, b, c := sym.Int64("a"), sym.Int64("b"), sym.Int64("c")
	args := []value.Value{value.Int(a), value.Int(b), value.Int(c)}
	names := []string{"a", "b", "c"}
	ast, perr := vparse(prog)
	if perr != nil {
		sym.Note("reference parser rejects the template: " + perr.Error())
		sym.Assert(false, "template-parses")
		return
	}
	f, _, gerr := fg.Generate(prog, names...)
	ref := newRefEval(value.New())
	want := func() res { v, err := ref.Run(ast, names, args); return res{v: v, err: err} }()
	if gerr != nil {
		// a well-formed program must be generated, unless the reference fails on it for every input too
		sym.Assert(!want.ok(), "well-formed-program-is-generated")
		sym.Reach("end")
		return
	}
	got := eval(f, args...)
	sym.Assert(!got.panicked, "no-panic")
	sym.Assert(sameOutcome(got, want), "same-outcome-as-reference")
	sym.Reach("end")
}

// ---- seeded random programs (int-typed expressions with binders) ----

type progGen struct {
	r      interface{ Intn(int) int }
	n      int
	shadow bool     // reuse visible names for parameters and for lets of inner function bodies
	args   []string // argument names (default a, b, c)
}

func (g *progGen) fresh(p string) string { g.n++; return p + strconv.Itoa(g.n) }

// scope: the names visible at a program point and which of them are bound in the
// current function body (a non-constant let must not clash with those; parameters and
// lets of an inner body may shadow everything outside).
type pscope struct {
	vars  []string
	local map[string]bool
}

func (sc pscope) with(n string) pscope {
	l := map[string]bool{}
	for k := range sc.local {
		l[k] = true
	}
	l[n] = true
	return pscope{vars: append(append([]string{}, sc.vars...), n), local: l}
}

// inner opens a new function body with the given parameters.
func (sc pscope) inner(params ...string) pscope {
	l := map[string]bool{}
	vs := append([]string{}, sc.vars...)
	for _, p := range params {
		l[p] = true
		vs = append(vs, p)
	}
	return pscope{vars: vs, local: l}
}

// letName picks the name of a new let: fresh, or (shadow mode) a visible name of an outer body.
func (g *progGen) letName(sc pscope) string {
	if g.shadow && g.r.Intn(2) == 0 {
		var cand []string
		for _, v := range sc.vars {
			if !sc.local[v] {
				cand = append(cand, v)
			}
		}
		if len(cand) > 0 {
			return cand[g.r.Intn(len(cand))]
		}
	}
	return g.fresh("v")
}

// paramName picks a parameter name: fresh, or (shadow mode) any visible name not among taken.
func (g *progGen) paramName(sc pscope, prefix string, taken ...string) string {
	if g.shadow && g.r.Intn(2) == 0 && len(sc.vars) > 0 {
		n := sc.vars[g.r.Intn(len(sc.vars))]
		ok := true
		for _, t := range taken {
			ok = ok && t != n
		}
		if ok {
			return n
		}
	}
	return g.fresh(prefix)
}

func (g *progGen) program() string {
	g.n = 0
	args := g.args
	if args == nil {
		args = []string{"a", "b", "c"}
	}
	sc := pscope{local: map[string]bool{}}
	for _, a := range args {
		sc = sc.with(a)
	}
	return g.letpos(3, sc)
}

// letpos generates an expression for a let-position (may start with let/func).
func (g *progGen) letpos(d int, sc pscope) string {
	if d > 0 {
		switch g.r.Intn(5) {
		case 0:
			n := g.letName(sc)
			return "let " + n + "=" + g.expr(d-1, sc) + "; " + g.letpos(d-1, sc.with(n))
		case 1:
			f := g.fresh("f")
			p := g.paramName(sc, "p")
			body := g.letpos(d-1, sc.inner(p))
			return "func " + f + "(" + p + ") " + body + "; " + f + "(" + g.letpos(d-1, sc) + ")+" + g.expr(d-1, sc)
		}
	}
	return g.expr(d, sc)
}

func (g *progGen) expr(d int, sc pscope) string {
	vars := sc.vars
	if d <= 0 {
		if g.r.Intn(3) == 0 {
			return strconv.Itoa(g.r.Intn(7))
		}
		return vars[g.r.Intn(len(vars))]
	}
	switch g.r.Intn(12) {
	case 0, 1:
		return "(" + g.expr(d-1, sc) + []string{"+", "-", "*"}[g.r.Intn(3)] + g.expr(d-1, sc) + ")"
	case 2:
		p := g.paramName(sc, "x")
		return "(" + p + "->" + g.letpos(d-1, sc.inner(p)) + ")(" + g.letpos(d-1, sc) + ")"
	case 3:
		p := g.paramName(sc, "x")
		q := g.paramName(sc, "y", p)
		return "((" + p + "," + q + ")->" + g.letpos(d-1, sc.inner(p, q)) + ")(" + g.letpos(d-1, sc) + "," + g.letpos(d-1, sc) + ")"
	case 4:
		return "(if " + g.expr(d-1, sc) + "<" + g.expr(d-1, sc) + " then " + g.letpos(d-1, sc) + " else " + g.letpos(d-1, sc) + ")"
	case 5:
		return "(switch " + g.expr(d-1, sc) + " case " + strconv.Itoa(g.r.Intn(3)) + ": " + g.letpos(d-1, sc) + " default " + g.letpos(d-1, sc) + ")"
	case 6:
		return "(try " + g.letpos(d-1, sc) + " catch " + g.letpos(d-1, sc) + ")"
	case 7:
		return "[" + g.letpos(d-1, sc) + "," + g.letpos(d-1, sc) + "][" + strconv.Itoa(g.r.Intn(2)) + "]"
	case 8:
		p := g.paramName(sc, "e")
		return "[" + g.expr(d-1, sc) + "," + g.expr(d-1, sc) + "].map(" + p + "->" + g.letpos(d-1, sc.inner(p)) + ").sum()"
	case 9:
		return "{k:" + g.letpos(d-1, sc) + ",j:" + g.letpos(d-1, sc) + "}." + []string{"k", "j"}[g.r.Intn(2)]
	case 10:
		p := g.paramName(sc, "x")
		q := g.paramName(sc, "y")
		return "(" + p + "->" + q + "->" + g.expr(d-1, sc.inner(p).inner(q)) + ")(" + g.expr(d-1, sc) + ")(" + g.letpos(d-1, sc) + ")"
	default:
		return "min(" + g.letpos(d-1, sc) + "," + g.letpos(d-1, sc) + ")"
	}
}
