package hx

import (
	"strconv"
	"strings"

	"github.com/hneemann/parser2"
	"verifharness/sym"
)

// C15 — token layout, comments and literal escapes do not change meaning.
//
// Parser[string] (numbers and strings keep their text) with + - * / ^, unary -,
// comments enabled, comfort mode per job.
//
// Jobs:
//	sep:<comfort>:<prog>:<pos>  the separator between token pos and pos+1 is symbolic (kind by
//	                            sym.Choice, contents symbolic bytes); all other separators one blank
//	err:<prog>:<pos>            the same with a syntax error behind the program: its reported line
//	str:<n>                     string literal of n symbolic runes written with the documented escapes
//	qid:<n>                     quoted identifier of n symbolic runes
//	alias                       typographic aliases and superscripts equal their ASCII spelling
//	juxt                        comfort-mode juxtaposition equals the explicit '*'

func init() {
	register(&Harness{Name: "c15", Property: "C15", Jobs: c15Jobs, Run: c15Run})
}

// programs as token lists
var c15Progs = [][]string{
	{"a", "+", "b", "*", "(", "1", "-", "a", ")", "/", "2"},
	{"f", "(", "a", ",", "\"s t\"", ")", "[", "1", "]", ".", "k", "^", "2"},
	{"-", "a", "*", "[", "1", ",", "b", "]", ".", "m", "(", "2", ")"},
	{"x", "->", "x", "*", "a", "+", "'q r'", "-", "1.5"},
	// number forms: exponents with and without sign next to tight operators
	{"1e3", "-", "1", "+", "2.5e+2", "*", "a", "-", "3e0", "+", "0.5", "-", "7e-1", "/", "b"},
}

func c15Jobs(tier string, seed int64) []string {
	var jobs []string
	add := func(j string) { jobs = append(jobs, "@noleak=1,steps=3000000@"+j) }
	for pi, p := range c15Progs {
		for pos := 0; pos+1 < len(p); pos++ {
			if tier != "thorough" && (pos+pi)%2 == 1 {
				continue
			}
			add("sep:0:" + strconv.Itoa(pi) + ":" + strconv.Itoa(pos))
			// comfort mode: programs 1 and 2 contain calls, whose one-blank canonical layout "f (" is a
			// product there - they are laid out in comfort mode by the juxt job instead
			if (tier == "thorough" || pos%4 == 0) && pi != 1 && pi != 2 {
				add("sep:1:" + strconv.Itoa(pi) + ":" + strconv.Itoa(pos))
			}
		}
		for pos := 0; pos+1 < len(p); pos += 3 {
			add("err:" + strconv.Itoa(pi) + ":" + strconv.Itoa(pos))
		}
	}
	add("str:0")
	add("str:1")
	add("str:2")
	add("qid:1")
	if tier == "thorough" {
		add("str:3")
		add("qid:2")
	}
	add("alias")
	add("juxt")
	return jobs
}

func c15Parser(comfort bool) *parser2.Parser[string] {
	return parser2.NewParser[string]().
		Op("+", "-", "*", "/", "^").
		Unary("-").
		SetNumberParser(parser2.NumberParserFunc[string](func(n string) (string, error) { return "N:" + n, nil })).
		SetStringConverter(parser2.StringConverterFunc[string](func(s string) string { return "S:" + s })).
		AllowComments().
		Comfort(comfort)
}

func c15Idents() parser2.Identifiers[string] {
	var id parser2.Identifiers[string]
	return id.Add("a").Add("b").Add("f").Add("q r")
}

// canon walks an AST (V = string) in a fixed order and records node labels and lines.
type c15Walk struct {
	labels []string
	lines  []int
}

func (w *c15Walk) add(label string, line parser2.Line) {
	w.labels = append(w.labels, label)
	w.lines = append(w.lines, int(line))
}

func (w *c15Walk) walk(a parser2.AST) {
	switch n := a.(type) {
	case *parser2.Operate:
		w.add("op "+n.Operator, n.Line)
		w.walk(n.A)
		w.walk(n.B)
	case *parser2.Unary:
		w.add("un "+n.Operator, n.Line)
		w.walk(n.Value)
	case *parser2.Ident:
		w.add("id "+n.Name, n.Line)
	case *parser2.Const[string]:
		w.add("const "+n.Value, n.Line)
	case *parser2.FunctionCall:
		w.add("call "+strconv.Itoa(len(n.Args)), n.Line)
		w.walk(n.Func)
		for _, x := range n.Args {
			w.walk(x)
		}
	case *parser2.MethodCall:
		w.add("meth "+n.Name+" "+strconv.Itoa(len(n.Args)), n.Line)
		w.walk(n.Value)
		for _, x := range n.Args {
			w.walk(x)
		}
	case *parser2.MapAccess:
		w.add("mem "+n.Key, n.Line)
		w.walk(n.MapValue)
	case *parser2.ListAccess:
		w.add("idx", n.Line)
		w.walk(n.List)
		w.walk(n.Index)
	case *parser2.ListLiteral:
		w.add("list "+strconv.Itoa(len(n.List)), n.Line)
		for _, x := range n.List {
			w.walk(x)
		}
	case *parser2.ClosureLiteral:
		w.add("clo "+strings.Join(n.Names, ","), n.Line)
		w.walk(n.Func)
	default:
		w.add("other", a.GetLine())
	}
}

func c15Parse(comfort bool, src string) (w *c15Walk, err error, panicked bool) {
	defer func() {
		if rec := recover(); rec != nil {
			panicked = true
		}
	}()
	ast, err := c15Parser(comfort).Parse(src, c15Idents())
	if err != nil {
		return nil, err, false
	}
	w = &c15Walk{}
	w.walk(ast)
	return w, nil, false
}

// sameLabels compares two walks structurally (labels may contain symbolic text).
func sameLabels(a, b *c15Walk) bool {
	if len(a.labels) != len(b.labels) {
		return false
	}
	eq := true
	for i := range a.labels {
		eq = sym.And(eq, a.labels[i] == b.labels[i])
	}
	return eq
}

// symSeparator builds a separator with symbolic kind and contents; it returns the text and
// the number of line feeds it contains (possibly symbolic).
func symSeparator(allowNone bool) (string, int64) {
	kinds := 5
	kind := sym.Choice("kind", kinds)
	pick := func(name string, alphabet string) byte {
		b := sym.Byte(name)
		in := false
		for i := 0; i < len(alphabet); i++ {
			in = sym.Or(in, b == alphabet[i])
		}
		sym.Assume(in)
		return b
	}
	lf := func(bs ...byte) int64 {
		var n int64
		for _, b := range bs {
			n += sym.IteInt(b == '\n', 1, 0)
		}
		return n
	}
	switch kind {
	case 0: // nothing (only where lexically possible)
		if !allowNone {
			return " ", 0
		}
		return "", 0
	case 1: // blanks
		b0, b1 := pick("w0", " \t\r\n"), pick("w1", " \t\r\n")
		return string([]byte{b0, b1}), lf(b0, b1)
	case 2: // line comment, tight on the left
		c0, c1 := pick("c0", "x*/\"'"), pick("c1", "x*/\"'")
		return "//" + string([]byte{c0, c1}) + "\n", 1
	case 3: // block comment written tight against both neighbours
		c0, c1 := pick("c0", "x*/\"'\n"), pick("c1", "x*/\"'\n")
		// the body must not contain the terminator, nor end with '*' (which would merge with the closing */ differently)
		sym.Assume(sym.Not(sym.And(c0 == '*', c1 == '/')))
		return "/*" + string([]byte{c0, c1}) + "*/", lf(c0, c1)
	default: // block comment set off by blanks, then a line comment
		c0 := pick("c0", "x*/\"'\n")
		return " /*" + string([]byte{c0}) + "x*/ //y\n ", lf(c0) + 1
	}
}

func isPunct(tok string) bool {
	switch tok {
	case "(", ")", "[", "]", ",", ".":
		return true
	}
	return false
}

func c15Run(job string) {
	parts := strings.Split(job, ":")
	switch parts[0] {
	case "sep", "err":
		var comfort bool
		var pi, pos int
		if parts[0] == "sep" {
			comfort = parts[1] == "1"
			pi, _ = strconv.Atoi(parts[2])
			pos, _ = strconv.Atoi(parts[3])
		} else {
			pi, _ = strconv.Atoi(parts[1])
			pos, _ = strconv.Atoi(parts[2])
		}
		toks := c15Progs[pi]
		// without a separator two tokens stay distinct only next to punctuation; in comfort mode a
		// blank before '(' has meaning, so the separator before '(' is never changed there
		allowNone := isPunct(toks[pos]) || isPunct(toks[pos+1])
		if comfort && toks[pos+1] == "(" {
			sym.Reach("end")
			return
		}
		if toks[pos] == "/" || toks[pos+1] == "/" || toks[pos] == "*" {
			// "/" next to a comment opener or "*" next to "/" would spell another token
			allowNone = false
		}
		sep, nlf := symSeparator(allowNone)
		if (toks[pos] == "/" || toks[pos] == "*") && (strings.HasPrefix(sep, "/")) {
			sep = " " + sep
		}
		canonical := strings.Join(toks, " ")
		perLine := strings.Join(toks, "\n")
		src := strings.Join(toks[:pos+1], " ") + sep + strings.Join(toks[pos+1:], " ")
		if parts[0] == "err" {
			// a stray closing bracket behind the program: the error names the line of that token
			src += " )"
			_, e, p := c15Parse(false, src)
			sym.Assert(!p, "no-panic")
			sym.Assert(e != nil, "error-reported")
			if e != nil {
				msg := e.Error()
				// the separator's line feeds all precede the stray token; it starts on line 1+nlf
				for l := int64(1); l <= 4; l++ {
					if strings.Contains(msg, "line "+strconv.FormatInt(l, 10)) {
						sym.Assert(nlf+1 == l, "error-line-is-line-of-offending-token")
					}
				}
			}
			sym.Reach("end")
			return
		}
		wc, e1, p1 := c15Parse(comfort, canonical)
		wl, e2, p2 := c15Parse(comfort, perLine)
		ws, e3, p3 := c15Parse(comfort, src)
		sym.Assert(!p1 && !p2 && !p3, "no-panic")
		sym.Assert(e1 == nil && e2 == nil, "canonical-layouts-parse")
		if e1 != nil || e2 != nil || p1 || p2 || p3 {
			return
		}
		sym.Assert(e3 == nil, "layout-variant-parses")
		if e3 != nil {
			return
		}
		sym.Assert(sameLabels(wc, ws), "same-ast-as-canonical-layout")
		sym.Assert(sameLabels(wc, wl), "same-ast-one-token-per-line")
		if len(ws.lines) == len(wl.lines) {
			// wl gives the anchor token of every node (token i is on line i+1)
			for i := range ws.lines {
				anchor := wl.lines[i] - 1
				want := int64(1)
				if anchor > pos {
					want = 1 + nlf
				}
				sym.Assert(int64(ws.lines[i]) == want, "node-line-is-line-of-its-token")
			}
		}
	case "str", "qid":
		n, _ := strconv.Atoi(parts[1])
		var lit strings.Builder
		var want strings.Builder
		quote := byte('"')
		if parts[0] == "qid" {
			quote = '\''
		}
		lit.WriteByte(quote)
		for i := 0; i < n; i++ {
			r := sym.Rune("r" + strconv.Itoa(i))
			sym.Assume(sym.And(r > 0, r <= 0x10FFFF))
			sym.Assume(sym.Or(r < 0xD800, r > 0xDFFF))
			want.WriteRune(r)
			if parts[0] == "qid" {
				// quoted identifiers have no escapes; no quote and no line break inside
				sym.Assume(sym.And(r != '\'', sym.And(r != '\n', r != '\r')))
				lit.WriteRune(r)
				continue
			}
			switch r {
			case '\\':
				lit.WriteString(`\\`)
			case '"':
				lit.WriteString(`\"`)
			case '\n':
				lit.WriteString(`\n`)
			case '\r':
				lit.WriteString(`\r`)
			case '\t':
				lit.WriteString(`\t`)
			default:
				lit.WriteRune(r)
			}
		}
		lit.WriteByte(quote)
		var id parser2.Identifiers[string]
		id = id.Add(want.String())
		var ast parser2.AST
		var err error
		panicked := false
		func() {
			defer func() {
				if rec := recover(); rec != nil {
					panicked = true
				}
			}()
			ast, err = c15Parser(false).Parse(lit.String(), id)
		}()
		sym.Assert(!panicked, "no-panic")
		sym.Assert(err == nil, "literal-parses")
		if err == nil && !panicked {
			if parts[0] == "str" {
				c, ok := ast.(*parser2.Const[string])
				sym.Assert(ok, "literal-is-const")
				if ok {
					sym.Assert(c.Value == "S:"+want.String(), "literal-denotes-exactly-that-string")
				}
			} else {
				c, ok := ast.(*parser2.Ident)
				sym.Assert(ok, "quoted-identifier-is-ident")
				if ok {
					sym.Assert(c.Name == want.String(), "quoted-identifier-denotes-its-content")
				}
			}
		}
	case "alias":
		pairs := [][2]string{
			{"a×b", "a*b"}, {"a•b", "a*b"}, {"a÷b", "a/b"}, {"a–b", "a-b"}, {"aˆ2", "a^2"},
			{"a²", "a^2"}, {"a³+b⁰", "a^3+b^0"}, {"(a+b)⁹", "(a+b)^9"}, {"a¹²", "a^1^2"}, {"–a×b÷2", "-a*b/2"},
			{"a ×  b", "a*b"}, {"a⁴⁵⁶⁷⁸", "a^4^5^6^7^8"},
		}
		for _, p := range pairs {
			w1, e1, p1 := c15Parse(false, p[0])
			w2, e2, p2 := c15Parse(false, p[1])
			sym.Assert(!p1 && !p2, "no-panic")
			sym.Assert(e1 == nil && e2 == nil, "alias-parses:"+p[1])
			if e1 == nil && e2 == nil && !p1 && !p2 {
				sym.Assert(sameLabels(w1, w2), "alias-equals-ascii:"+p[1])
			}
		}
	case "juxt":
		lefts := []string{"2", "a", "(a+b)"}
		rights := []string{"3", "b", "(a-b)"}
		for _, l := range lefts {
			for _, r := range rights {
				for _, sep := range []string{"", " "} {
					lw := l[0] >= 'a' && l[0] <= 'z' || l[0] >= '0' && l[0] <= '9'
					rw := r[0] >= 'a' && r[0] <= 'z' || r[0] >= '0' && r[0] <= '9'
					if sep == "" && lw && rw && !(l == "2" && r == "b") {
						continue // would spell one token
					}
					if sep == "" && l == "a" && r[0] == '(' {
						// identifier immediately followed by '(' is a call, not a product
						w1, e1, _ := c15Parse(true, "f"+r)
						sym.Assert(e1 == nil && w1 != nil && strings.HasPrefix(w1.labels[0], "call"), "ident-paren-is-call")
						continue
					}
					for _, ctx := range []string{"@", "1+@", "@^2", "-@"} {
						imp := strings.Replace(ctx, "@", l+sep+r, 1)
						exp := strings.Replace(ctx, "@", l+"*"+r, 1)
						w1, e1, p1 := c15Parse(true, imp)
						w2, e2, p2 := c15Parse(true, exp)
						sym.Assert(!p1 && !p2, "no-panic")
						sym.Assert(e1 == nil && e2 == nil, "juxtaposition-parses:"+imp)
						if e1 == nil && e2 == nil && !p1 && !p2 {
							sym.Assert(sameLabels(w1, w2), "juxtaposition-equals-explicit-product:"+imp)
						}
					}
				}
			}
		}
	default:
		panic("c15: unknown job " + job)
	}
	sym.Reach("end")
}
