package hx

import (
	"strconv"
	"strings"

	"github.com/hneemann/parser2/value"
	"verifharness/sym"
)

// C09 — lists and maps are persistent values.
//
// A history of operations is applied to a pool of handles (real value objects
// kept alive by the harness); every operation is a one-operation generated
// function (e.g. "l.append(x)") evaluated with the handle as argument.  A purely
// functional model (immutable slices / Go maps of symbolic values) says what
// every handle must contain; after the history (and, in mode 1, after every
// step) every handle is observed through the public API.
//
// Symbolic: element values, operation arguments.  Enumerated by sym.Choice:
// the operations, the parent handle of each step, the spare capacity (0..3) of
// the host-supplied parent, the observation mode.
//
// Jobs: list:<steps>:<firstop>   map:<steps>:<firstop>   const:<program>

func init() {
	register(&Harness{Name: "c09", Property: "C09", Jobs: c09Jobs, Run: c09Run})
}

var c09ListOps = []string{"append", "set", "reverse", "concat", "concatL", "top", "skip", "map", "order", "first", "evalmeth", "appendappend", "number", "combine", "readonly"}

// read-only uses of a list: whatever they return, the list they were applied to stays as it is
var c09ReadOnly = []string{
	`l ~ (l+[x])`, `l.top(2) ~ l`, `l.orderRev(e->e).size()`, `l.orderLess((p,q)->p<q).size()`, `l.groupByInt(e->e%2).size()`, `l.uniqueInt(e->e).size()`, `l.minMax(e->e).valid`, `l.number((i,e)->i).size()`,
	`[x] ~ l`, `l.skip(1) ~ (l+l)`, `l = l.map(e->e)`, `l.reduce((p,q)->p+q)`, `l.indexWhere(e->e=x)`,
	`l.combine((p,q)->p).size()`, `l.iir(e->e,(e,o)->o).size()`, `l.visit(0,(v,e)->v+e)`, `l.present(e->e=x)`, `l.last()`, `x ~ l`, `l.cross(l,(p,q)->p).size()`,
	`l.merge(l,(p,q)->p<q).size()`, `l.multiUse({a:t->t.size(),b:t->t.top(1).size()}).a`, `l.compact((p,q)->p=q).size()`, `l.mapReduce(0,(s,e)->s+e)`, `l.sum()`,
}
// c09FullReadOnly: thorough tier - every read-only use is a choice (job kind "listfull")
var c09FullReadOnly bool

var c09MapOps = []string{"put", "replaceIn", "replaceOut", "merge", "eval", "map", "accept", "putput"}

func c09Jobs(tier string, seed int64) []string {
	var jobs []string
	steps := 2
	if tier == "thorough" {
		steps = 3
	}
	// histories of three operations multiply to ~10^5 paths per first operation: thorough runs them for
	// three list and two map first operations, two operations otherwise
	for i := range c09ListOps {
		// (list histories of three operations exceed 200k paths per first operation: not registered;
		// thorough: two operations with every read-only use as a choice)
		kind := "list"
		if steps == 3 {
			kind = "listfull"
		}
		jobs = append(jobs, kind+":2:"+strconv.Itoa(i))
	}
	for i := range c09MapOps {
		st := steps
		if st == 3 && !(c09MapOps[i] == "put" || c09MapOps[i] == "merge") {
			st = 2
		}
		jobs = append(jobs, "map:"+strconv.Itoa(st)+":"+strconv.Itoa(i))
	}
	for _, p := range []string{
		`let c=[1,2].append(3); [c.append(a), c.append(b), c]`,
		`let c=[1,2,3]; [c.append(a), c+[b], c.set(0,a), c.reverse(), c]`,
		`let c=numbers(3).map(x->x+1); [c.append(a), c.append(b), c]`,
		`let c=[3,1,2].order(x->x); [c.append(a), c.append(b), c.reverse(), c]`,
		`let m={k:1}; [m.put("a",a), m.put("a",b), m.replace(x->{k:a}), m]`,
		`let m={k:1}.put("j",2); [m.put("a",a), m.put("b",b), m+{z:a}, m]`,
		`let l=[a,b]; let l2=l.append(1); let l3=l2.append(2); let l4=l2.append(3); [l,l2,l3,l4]`,
		`let l=[a].append(b).append(1); let p=l+[4]; let q=l.append(5); let r=l+[6]; [l,p,q,r]`,
		`let m={k:a}.eval(); let p=m.put("x",b); let e=p.eval(); let q=m.put("x",1); [m.size(),p.size(),e.size(),q.x,p.x]`,
	} {
		jobs = append(jobs, "const:"+p)
	}
	return jobs
}

type c09Handle struct {
	v     value.Value
	model []value.Value          // lists
	mm    map[string]value.Value // maps
	keys  []string               // map key order of the model (for deterministic checks)
}

func c09CheckList(h *c09Handle, tag string) {
	l, ok := h.v.(*value.List)
	sym.Assert(ok, "handle-is-list")
	if !ok {
		return
	}
	sl, err := l.ToSlice(emptyStack())
	sym.Assert(err == nil, "list-readable")
	if err != nil {
		return
	}
	sym.Assert(len(sl) == len(h.model), "size-unchanged:"+tag)
	if len(sl) != len(h.model) {
		return
	}
	eq := true
	for i := range sl {
		eq = sym.And(eq, valEq(sl[i], h.model[i]))
	}
	sym.Assert(eq, "elements-unchanged:"+tag)
	n, err := l.Size(emptyStack())
	sym.Assert(err == nil && n == len(h.model), "size-method:"+tag)
}

func c09CheckMap(h *c09Handle, tag string) {
	m, ok := h.v.(value.Map)
	sym.Assert(ok, "handle-is-map")
	if !ok {
		return
	}
	sym.Assert(m.Size() == len(h.mm), "map-size-unchanged:"+tag)
	n := 0
	seen := map[string]bool{}
	m.Iter(func(k string, v value.Value) bool {
		n++
		seen[k] = true
		return true
	})
	sym.Assert(n == len(h.mm), "map-iteration-count:"+tag)
	eq := true
	for _, k := range h.keys {
		want := h.mm[k]
		got, ok := m.Get(k)
		sym.Assert(ok && seen[k], "map-key-present:"+tag)
		if ok {
			eq = sym.And(eq, valEq(got, want))
		}
	}
	sym.Assert(eq, "map-values-unchanged:"+tag)
	for _, k := range []string{"a", "b", "c", "x"} {
		if _, in := h.mm[k]; !in {
			_, ok := m.Get(k)
			sym.Assert(!ok, "map-no-extra-key:"+tag)
		}
	}
}

func cloneVals(s []value.Value) []value.Value { return append([]value.Value{}, s...) }

func c09Run(job string) {
	parts := strings.SplitN(job, ":", 3)
	fg := value.New()
	switch parts[0] {
	case "const":
		c09Const(fg, parts[1]+func() string {
			if len(parts) > 2 {
				return ":" + parts[2]
			}
			return ""
		}())
		sym.Reach("end")
		return
	case "list", "listfull":
		c09FullReadOnly = parts[0] == "listfull"
		steps, _ := strconv.Atoi(parts[1])
		first, _ := strconv.Atoi(parts[2])
		c09ListHistory(fg, steps, first)
	case "map":
		steps, _ := strconv.Atoi(parts[1])
		first, _ := strconv.Atoi(parts[2])
		c09MapHistory(fg, steps, first)
	}
	sym.Reach("end")
}

func c09ListHistory(fg *value.FunctionGenerator, steps, first int) {
	// host-supplied parent with symbolic elements and a chosen amount of spare capacity
	n := 2
	spare := sym.Choice("spare", 4)
	backing := make([]value.Value, n, n+spare)
	var model []value.Value
	for i := 0; i < n; i++ {
		backing[i] = value.Int(sym.Int64("e" + strconv.Itoa(i)))
		model = append(model, backing[i])
	}
	kind := sym.Choice("parent", 3)
	var parent value.Value
	switch kind {
	case 0:
		parent = value.NewList(backing...)
	case 1: // lazily produced
		r := eval(mustGen(fg, "l.map(x->x)", "l"), value.NewList(backing...))
		parent = r.v
	default: // produced by append (len < cap inside the library)
		r := eval(mustGen(fg, "[x].append(y)", "x", "y"), backing[0], backing[1])
		parent = r.v
	}
	handles := []*c09Handle{{v: parent, model: model}}
	mode := sym.Choice("observe", 2)
	for s := 0; s < steps; s++ {
		op := first
		if s > 0 {
			op = sym.Choice("op"+strconv.Itoa(s), len(c09ListOps))
		}
		pi := 0
		if len(handles) > 1 {
			pi = sym.Choice("parent"+strconv.Itoa(s), len(handles))
		}
		p := handles[pi]
		x := value.Int(sym.Int64("x" + strconv.Itoa(s)))
		var r res
		var nm []value.Value
		switch c09ListOps[op] {
		case "append":
			r = eval(mustGen(fg, "l.append(x)", "l", "x"), p.v, x)
			nm = append(cloneVals(p.model), x)
		case "appendappend":
			r = eval(mustGen(fg, "l.append(x).append(x)", "l", "x"), p.v, x)
			nm = append(cloneVals(p.model), x, x)
		case "set":
			if len(p.model) == 0 {
				continue
			}
			r = eval(mustGen(fg, "l.set(0,x)", "l", "x"), p.v, x)
			nm = cloneVals(p.model)
			nm[0] = x
		case "reverse":
			r = eval(mustGen(fg, "l.reverse()", "l"), p.v)
			for i := len(p.model) - 1; i >= 0; i-- {
				nm = append(nm, p.model[i])
			}
		case "concat":
			r = eval(mustGen(fg, "l+[x]", "l", "x"), p.v, x)
			nm = append(cloneVals(p.model), x)
		case "concatL":
			r = eval(mustGen(fg, "[x]+l", "l", "x"), p.v, x)
			nm = append([]value.Value{x}, p.model...)
		case "top":
			r = eval(mustGen(fg, "l.top(1)", "l"), p.v)
			if len(p.model) > 0 {
				nm = cloneVals(p.model[:1])
			}
		case "skip":
			r = eval(mustGen(fg, "l.skip(1)", "l"), p.v)
			if len(p.model) > 0 {
				nm = cloneVals(p.model[1:])
			}
		case "map":
			r = eval(mustGen(fg, "l.map(e->e+x)", "l", "x"), p.v, x)
			for _, e := range p.model {
				nm = append(nm, e.(value.Int)+x)
			}
		case "number":
			r = eval(mustGen(fg, "l.number((i,e)->e+i*x)", "l", "x"), p.v, x)
			for i, e := range p.model {
				nm = append(nm, e.(value.Int)+value.Int(i)*x)
			}
		case "combine":
			r = eval(mustGen(fg, "l.combine((p,q)->p*x+q)", "l", "x"), p.v, x)
			for i := 0; i+1 < len(p.model); i++ {
				nm = append(nm, p.model[i].(value.Int)*x+p.model[i+1].(value.Int))
			}
		case "readonly":
			// quick: the first 8 (the copying ones first); thorough: all
			nro := 8
			if steps >= 3 || c09FullReadOnly {
				nro = len(c09ReadOnly)
			}
			ro := c09ReadOnly[sym.Choice("ro"+strconv.Itoa(s), nro)]
			rr := eval(mustGen(fg, ro, "l", "x"), p.v, x)
			sym.Assert(!rr.panicked, "read-only-use-no-panic")
			continue
		case "order":
			// the new list is not modelled (sorting symbolic values); the parent must stay as it is
			r = eval(mustGen(fg, "l.order(e->e).size()", "l"), p.v)
			sym.Assert(r.ok(), "order-defined")
			continue
		case "first":
			// partial consumption of the parent
			if len(p.model) == 0 {
				continue
			}
			r = eval(mustGen(fg, "l.first()", "l"), p.v)
			sym.Assert(r.ok() && valEq(r.v, p.model[0]), "first-value")
			continue
		case "evalmeth":
			r = eval(mustGen(fg, "l.eval()", "l"), p.v)
			nm = cloneVals(p.model)
		}
		sym.Assert(r.ok(), "operation-defined:"+c09ListOps[op])
		if !r.ok() {
			return
		}
		handles = append(handles, &c09Handle{v: r.v, model: nm})
		if mode == 1 {
			for k, h := range handles {
				c09CheckList(h, "h"+strconv.Itoa(k)+"-after-step"+strconv.Itoa(s))
			}
		}
	}
	for k, h := range handles {
		c09CheckList(h, "h"+strconv.Itoa(k)+"-at-end")
	}
}

func c09MapHistory(fg *value.FunctionGenerator, steps, first int) {
	e0 := value.Int(sym.Int64("e0"))
	kind := sym.Choice("parent", 7)
	var parent value.Value
	switch kind {
	case 4:
		// results of + and of accept that dropped entries: entry slices with spare capacity
		parent = eval(mustGen(fg, "{k:x}+{}", "x"), e0).v
	case 5:
		parent = eval(mustGen(fg, `{k:x,y9:1,z9:2}.accept((k,v)->k="k")`, "x"), e0).v
	case 6:
		parent = eval(mustGen(fg, `({j9:0}+{k:x}+{i9:1}).accept((k,v)->k="k")`, "x"), e0).v
	case 0:
		parent = value.NewMap(value.RealMap{"k": e0})
	case 1:
		parent = eval(mustGen(fg, "{k:x}", "x"), e0).v
	case 2:
		parent = eval(mustGen(fg, "{}.put(\"k\",x)", "x"), e0).v
	default:
		parent = eval(mustGen(fg, "{k:x}.eval()", "x"), e0).v
	}
	handles := []*c09Handle{{v: parent, mm: map[string]value.Value{"k": e0}, keys: []string{"k"}}}
	mode := sym.Choice("observe", 2)
	freshKeys := []string{"a", "b", "c", "x"}
	for s := 0; s < steps; s++ {
		op := first
		if s > 0 {
			op = sym.Choice("op"+strconv.Itoa(s), len(c09MapOps))
		}
		pi := 0
		if len(handles) > 1 {
			pi = sym.Choice("parent"+strconv.Itoa(s), len(handles))
		}
		p := handles[pi]
		x := value.Int(sym.Int64("x" + strconv.Itoa(s)))
		nk := freshKeys[s%len(freshKeys)]
		if _, in := p.mm[nk]; in {
			continue
		}
		nm := map[string]value.Value{}
		for k, v := range p.mm {
			nm[k] = v
		}
		keys := append([]string{}, p.keys...)
		var r res
		switch c09MapOps[op] {
		case "put":
			r = eval(mustGen(fg, "m.put(\""+nk+"\",x)", "m", "x"), p.v, x)
			nm[nk] = x
			keys = append(keys, nk)
		case "putput":
			r = eval(mustGen(fg, "m.put(\""+nk+"\",x).put(\"z"+nk+"\",x)", "m", "x"), p.v, x)
			nm[nk] = x
			nm["z"+nk] = x
			keys = append(keys, nk, "z"+nk)
		case "replaceIn":
			r = eval(mustGen(fg, "m.replace(o->{k:x})", "m", "x"), p.v, x)
			nm["k"] = x
		case "replaceOut":
			// a replacement key outside the original key set: not covered here (C13), parent must stay unchanged
			r = eval(mustGen(fg, "m.replace(o->{k:o.k}).size()", "m"), p.v)
			sym.Assert(r.ok(), "replace-defined")
			continue
		case "merge":
			r = eval(mustGen(fg, "m+{"+nk+":x}", "m", "x"), p.v, x)
			nm[nk] = x
			keys = append(keys, nk)
		case "eval":
			r = eval(mustGen(fg, "m.eval()", "m"), p.v)
		case "map":
			r = eval(mustGen(fg, "m.map((k,v)->v+x)", "m", "x"), p.v, x)
			for k, v := range p.mm {
				nm[k] = v.(value.Int) + x
			}
		case "accept":
			r = eval(mustGen(fg, "m.accept((k,v)->k=\"k\")", "m"), p.v)
			nm = map[string]value.Value{"k": p.mm["k"]}
			keys = []string{"k"}
		}
		sym.Assert(r.ok(), "operation-defined:"+c09MapOps[op])
		if !r.ok() {
			return
		}
		handles = append(handles, &c09Handle{v: r.v, mm: nm, keys: keys})
		if mode == 1 {
			for k, h := range handles {
				c09CheckMap(h, "h"+strconv.Itoa(k)+"-after-step"+strconv.Itoa(s))
			}
		}
	}
	for k, h := range handles {
		c09CheckMap(h, "h"+strconv.Itoa(k)+"-at-end")
	}
}

// c09Const: values bound to names inside one program, and constants reused
// across evaluations of the same generated function: compared with the
// reference evaluator (whose lists are fresh immutable values).
func c09Const(fg *value.FunctionGenerator, prog string) {
	a, b := value.Int(sym.Int64("a")), value.Int(sym.Int64("b"))
	f := mustGen(fg, prog, "a", "b")
	ast, err := vparse(prog)
	if err != nil {
		sym.Assert(false, "template-parses")
		return
	}
	ref := newRefEval(value.New())
	for round, args := range [][]value.Value{{a, b}, {b, a}, {a, b}} {
		got := eval(f, args...)
		wv, werr := ref.Run(ast, []string{"a", "b"}, args)
		sym.Assert(sameOutcome(got, res{v: wv, err: werr}), "evaluation-"+strconv.Itoa(round)+"-matches-fresh-values")
	}
}
