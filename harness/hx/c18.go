package hx

import (
	"strconv"
	"strings"

	"github.com/hneemann/parser2/funcGen"
	"github.com/hneemann/parser2/value"
	"github.com/hneemann/parser2/value/export"
	"verifharness/sym"
)

// C18 — XML and HTML export are well-formed and data can never inject markup.
//
// Job = "<exporter>:<shape>:<n>": strings of n SYMBOLIC runes over the legal XML
// characters in one position of a value tree; oracle: the reader of refxml.go
// on the (symbolic) output bytes.
//
//	xml shapes:  text (list element), val (value of a simple map -> attribute value), key (key of a
//	             simple map), ekey (key of a non-simple map), nested
//	html shapes: text, key, val, style (Format style string), link (Link target), file (File name),
//	             cut:<len> (list of <len> strings, maxListSize SYMBOLIC in 0..4)

func init() {
	register(&Harness{Name: "c18", Property: "C18", Jobs: c18Jobs, Run: c18Run})
}

func c18Jobs(tier string, seed int64) []string {
	jobs := []string{
		"xml:text:1", "xml:val:1", "xml:key:1", "xml:ekey:1", "xml:nested:1", "xml:text:0", "xml:text:2",
		"html:text:1", "html:key:1", "html:val:1", "html:style:1", "html:link:1", "html:file:1", "html:class:1", "html:table:1",
		"html:cut:0", "html:cut:1", "html:cut:3",
		// containers behind Link/Format wrappers keep their structure; style closures: results are escaped, failures are errors
		"xml:wraplink:1", "xml:wrapformat:1", "xml:wrapmap:1", "html:styleclosure:1", "html:stylefail:1", "html:urlhttp:1", "html:urlhost:1", "html:urlhost:2", "html:failcell:1",
		// symbolic runes behind a concrete context: sequences that are markup only as a whole (]]> &#..; <!-- CR LF)
		"xml:text:1:]]", "xml:val:1:]]", "html:text:1:]]", "html:val:1:]]", "xml:text:1:&#", "html:text:1:&#3", "xml:text:1:<!-", "xml:text:1:a\r", "xml:val:1:a\r", "html:style:1:]]",
	}
	if tier == "thorough" {
		jobs = append(jobs, "xml:val:2", "xml:key:2", "xml:ekey:2", "html:text:2", "html:style:2", "html:link:2", "html:key:2", "html:cut:4", "html:cut:5")
	}
	return jobs
}

// xmlRunes returns n symbolic legal XML characters.
func xmlRunes(name string, n int) []rune {
	rs := make([]rune, n)
	for i := range rs {
		r := sym.Rune(name + strconv.Itoa(i))
		legal := sym.Or(sym.Or(r == 0x9, sym.Or(r == 0xA, r == 0xD)),
			sym.Or(sym.And(r >= 0x20, r <= 0xD7FF), sym.Or(sym.And(r >= 0xE000, r <= 0xFFFD), sym.And(r >= 0x10000, r <= 0x10FFFF))))
		sym.Assume(legal)
		rs[i] = r
	}
	if len(c18Prefix) > 0 {
		rs = append(append([]rune{}, c18Prefix...), rs...)
	}
	return rs
}

// countText counts the leaf elements whose character data is exactly want (white space
// between child elements is formatting of the pretty printer, not data).
func countText(e *xelem, want []rune, acc *int64) {
	if len(e.kids) == 0 {
		var all []rune
		for _, t := range e.texts {
			all = append(all, t...)
		}
		if len(e.texts) > 0 {
			*acc += sym.IteInt(runesEq(all, want), 1, 0)
		}
	}
	for _, k := range e.kids {
		countText(k, want, acc)
	}
}

func countAttr(e *xelem, name string, want []rune, acc *int64) {
	for _, a := range e.attrs {
		if a.name == name {
			*acc += sym.IteInt(runesEq(a.val, want), 1, 0)
		}
	}
	for _, k := range e.kids {
		countAttr(k, name, want, acc)
	}
}

func allNames(e *xelem, elems, attrs map[string]bool) {
	elems[e.name] = true
	for _, a := range e.attrs {
		attrs[a.name] = true
	}
	for _, k := range e.kids {
		allNames(k, elems, attrs)
	}
}

func countElems(e *xelem, name string) int {
	n := 0
	if e.name == name {
		n++
	}
	for _, k := range e.kids {
		n += countElems(k, name)
	}
	return n
}

// c18Prefix is the concrete context in front of the symbolic runes of the current job.
var c18Prefix []rune

func c18Run(job string) {
	parts := strings.SplitN(job, ":", 4)
	n, _ := strconv.Atoi(parts[2])
	c18Prefix = nil
	if len(parts) == 4 {
		c18Prefix = []rune(strings.ReplaceAll(parts[3], "\\r", "\r"))
	}
	if parts[0] == "xml" {
		c18XML(parts[1], n)
	} else {
		c18HTML(parts[1], n)
	}
	sym.Reach("end")
}

func c18XML(shape string, n int) {
	rs := xmlRunes("r", n)
	s := string(rs)
	var v value.Value
	switch shape {
	case "text":
		v = value.NewList(value.String(s), value.String("x-y-z"))
	case "val":
		v = value.NewMap(value.RealMap{"a": value.String(s), "b": value.Int(1)})
	case "key":
		v = value.NewMap(value.RealMap{s: value.Int(2)})
	case "ekey":
		v = value.NewMap(value.RealMap{s: value.NewList(value.Int(1))})
	case "nested":
		v = value.NewList(value.NewMap(value.RealMap{"k": value.NewList(value.String(s)), "j": value.String(s)}))
	case "wraplink":
		v = value.NewMap(value.RealMap{"ka": export.Link{Value: value.NewList(value.String(s), value.String("x-y-z")), Link: "t"}, "kb": value.String("B-B")})
	case "wrapformat":
		v = value.NewMap(value.RealMap{"ka": export.Format{Value: value.NewList(value.String(s), value.String("x-y-z")), Format: value.String("c")}, "kb": value.String("B-B")})
	case "wrapmap":
		v = value.NewList(export.Link{Value: value.NewMap(value.RealMap{"ka": export.Link{Value: value.NewMap(value.RealMap{"kq": value.NewList(value.String(s))}), Link: "t"}}), Link: "u"})
	}
	exp := export.XML()
	var out []byte
	var err error
	func() {
		defer func() {
			if rec := recover(); rec != nil {
				err = errPanic
				sym.Assert(false, "export-panics")
			}
		}()
		err = export.Export(emptyStack(), v, exp)
		out = exp.Result()
	}()
	sym.Assert(err == nil, "export-succeeds")
	if err != nil {
		return
	}
	doc, ok := refXMLParse(out)
	sym.Assert(ok, "well-formed")
	if !ok {
		return
	}
	elems, attrs := map[string]bool{}, map[string]bool{}
	allNames(doc, elems, attrs)
	for e := range elems {
		sym.Assert(e == "list" || e == "map" || e == "entry", "no-element-introduced-by-content")
	}
	switch shape {
	case "text":
		var c int64
		countText(doc, rs, &c)
		sym.Assert(doc.name == "list" && len(doc.kids) == 2, "list-structure")
		if n > 0 {
			sym.Assert(c >= 1, "text-decodes-to-the-string")
		}
		if len(doc.kids) == 2 {
			var one [][]rune
			for _, t := range doc.kids[0].texts {
				one = append(one, t)
			}
			if n > 0 {
				sym.Assert(len(one) == 1 && runesEq(one[0], rs), "entry-text-is-exactly-the-string")
			}
		}
		sym.Assert(len(attrs) == 0, "no-attribute-introduced-by-content")
	case "val":
		var c int64
		countAttr(doc, "a", rs, &c)
		sym.Assert(doc.name == "map" && len(doc.attrs) == 2 && len(doc.kids) == 0, "simple-map-structure")
		sym.Assert(c == 1, "attribute-value-decodes-to-the-string")
	case "key":
		// the key must come back as data: either as the value of a key attribute or as an attribute
		// NAME only if it is a name; in no case may it add attributes or elements
		sym.Assert(doc.name == "map", "map-structure")
		total := len(doc.attrs)
		for _, k := range doc.kids {
			total += len(k.attrs)
		}
		sym.Assert(total == 1, "exactly-one-attribute-for-one-entry")
		var c int64
		countAttr(doc, "key", rs, &c)
		isAttrName := len(doc.attrs) == 1 && runesEq([]rune(doc.attrs[0].name), rs)
		sym.Assert(sym.Or(c == 1, isAttrName), "key-decodes-to-the-string")
	case "ekey":
		var c int64
		countAttr(doc, "key", rs, &c)
		sym.Assert(doc.name == "map" && len(doc.kids) == 1, "map-structure")
		sym.Assert(c == 1, "key-attribute-decodes-to-the-string")
	case "wraplink", "wrapformat", "wrapmap":
		// the wrapped container is still a container: one list element holding the string as text
		var ct int64
		countText(doc, rs, &ct)
		sym.Assert(countElems(doc, "list") >= 1, "wrapped-list-keeps-its-structure")
		sym.Assert(ct == 1, "wrapped-list-item-is-character-data")
		var ca int64
		for _, an := range []string{"ka", "kb", "kq", "key"} {
			countAttr(doc, an, rs, &ca)
		}
		sym.Assert(ca == 0, "wrapped-list-is-no-attribute-value")
	case "nested":
		var ct, ca int64
		countText(doc, rs, &ct)
		sym.Assert(countElems(doc, "list") == 2 && countElems(doc, "map") == 1, "nested-structure")
		if n > 0 {
			sym.Assert(ct == 2, "both-occurrences-decode-to-the-string")
		}
		_ = ca
	}
}

func c18Style(style value.Value, v value.Value) value.Value {
	return export.Format{Value: v, Format: style}
}

func c18HTML(shape string, n int) {
	rs := xmlRunes("r", n)
	s := string(rs)
	// strings that start like a URL are rendered as links on purpose: keep them out of the generic shapes
	notURL := func() {
		if n >= 1 {
			sym.Assume(sym.And(rs[0] != 'h', rs[0] != 'H'))
		}
	}
	var v value.Value
	maxList := 10
	inline := true
	wantText, wantAttr := false, ""
	switch shape {
	case "text":
		notURL()
		v = value.NewList(value.String(s), value.String("x-y-z"))
		wantText = true
	case "key":
		v = value.NewMap(value.RealMap{s: value.Int(1)})
		wantText = false
	case "val":
		notURL()
		v = value.NewMap(value.RealMap{"k": value.String(s)})
		wantText = true
	case "style":
		v = value.NewList(c18Style(value.String(s), value.String("t")), c18Style(value.String(s), value.NewList(value.Int(1))))
		wantAttr = "style"
	case "class":
		v = value.NewList(c18Style(value.String(s), value.String("t")))
		inline = false
	case "link":
		v = value.NewList(export.Link{Value: value.String("t"), Link: s})
		wantAttr = "href"
	case "file":
		v = value.NewList(export.File{Name: s, MimeType: "text/plain", Data: []byte("abc")})
		wantAttr = "download"
	case "table":
		notURL()
		v = value.NewList(value.NewMap(value.RealMap{"a": value.String(s), "b": value.String("q-q-q")}), value.NewMap(value.RealMap{"a": value.String("y-y-y"), "b": value.String(s)}))
		wantText = true
	case "urlhttp":
		// strings that start like a URL are shown as links: the target is the whole string
		rs = append([]rune("http://"), rs...)
		s = string(rs)
		v = value.NewList(value.String(s), value.String("x-y-z"))
		wantAttr = "href"
	case "urlhost":
		// "host:<target>" links to <target>, whatever characters the target starts with
		v = value.NewList(value.String("host:"+s), value.String("x-y-z"))
		wantAttr = "href"
	case "failcell":
		// a value that fails while it is rendered (lazy list with a failing element) anywhere in a tree:
		// ToHtml reports the failure
		lazyFail := func() value.Value { return eval(mustGen(value.New(), `[1,0,2].map(x->6%x)`)).v }
		for ti, tree := range []value.Value{
			value.NewList(lazyFail()),
			value.NewList(value.NewList(value.Int(1), lazyFail())),
			value.NewList(value.NewList(value.String(s)), value.NewList(value.Int(1), value.NewList(lazyFail()))),
			value.NewList(value.NewList(value.NewMap(value.RealMap{"k": lazyFail()}))),
			value.NewMap(value.RealMap{"k": lazyFail()}),
			value.NewMap(value.RealMap{"k": value.NewList(value.NewList(lazyFail()))}),
			value.NewList(value.NewMap(value.RealMap{"a": value.String(s), "b": lazyFail()})),
			export.Link{Value: value.NewList(value.NewList(lazyFail())), Link: "t"},
			lazyFail(),
		} {
			var ferr error
			func() {
				defer func() {
					if rec := recover(); rec != nil {
						ferr = errPanic
						sym.Assert(false, "ToHtml-panics")
					}
				}()
				_, _, ferr = export.ToHtml(tree, 10, nil, true)
			}()
			sym.Assert(ferr != nil, "failing-value-is-reported:"+strconv.Itoa(ti))
		}
		return
	case "styleclosure":
		// a one-argument style closure produces the value that is shown: its result is content like any other
		notURL()
		cl := eval(mustGen(value.New(), `x->x+"-q"`)).v
		v = export.Link{Value: export.Format{Value: value.String(s), Format: cl}, Link: "t-t"}
		rs = append(append([]rune{}, rs...), []rune("-q")...)
		s = string(rs)
		wantText = true
	case "stylefail":
		cl := eval(mustGen(value.New(), `x->throw("style fails")`)).v
		cl2 := eval(mustGen(value.New(), `x->x.nosuch()`)).v
		for ti, tree := range []value.Value{
			// the places where a one-argument closure is applied as style (inside table cells a closure
			// is not a style and is not called)
			export.Format{Value: value.String(s), Format: cl},
			export.Link{Value: export.Format{Value: value.String(s), Format: cl2}, Link: "t"},
			export.Format{Value: value.NewList(value.String(s)), Format: cl},
			value.NewList(export.Format{Value: value.NewList(value.String(s)), Format: cl2}),
			export.Link{Value: export.Link{Value: export.Format{Value: value.String(s), Format: cl}, Link: "t"}, Link: "u"},
		} {
			var ferr error
			func() {
				defer func() {
					if rec := recover(); rec != nil {
						ferr = errPanic
						sym.Assert(false, "ToHtml-panics")
					}
				}()
				_, _, ferr = export.ToHtml(tree, 10, nil, true)
			}()
			sym.Assert(ferr != nil, "failing-style-closure-is-reported:"+strconv.Itoa(ti))
		}
		return
	case "cut":
		// n is the list length here; maxListSize symbolic
		var items []value.Value
		for i := 0; i < n; i++ {
			items = append(items, value.String("item"+strconv.Itoa(i)))
		}
		v = value.NewList(items...)
		ml := sym.Int64("max")
		sym.Assume(sym.And(ml >= 0, ml <= 4))
		maxList = int(ml)
		rs, s = nil, ""
	}
	var html string
	var err error
	func() {
		defer func() {
			if rec := recover(); rec != nil {
				err = errPanic
				sym.Assert(false, "ToHtml-panics")
			}
		}()
		h, _, e := export.ToHtml(v, maxList, nil, inline)
		html, err = string(h), e
	}()
	sym.Assert(err == nil, "ToHtml-succeeds")
	if err != nil {
		return
	}
	doc, ok := refXMLParse([]byte("<root>" + html + "</root>"))
	sym.Assert(ok, "well-formed")
	if !ok {
		return
	}
	elems, attrs := map[string]bool{}, map[string]bool{}
	allNames(doc, elems, attrs)
	for e := range elems {
		switch e {
		case "root", "table", "tr", "td", "th", "a", "span":
		default:
			sym.Assert(false, "no-element-introduced-by-content")
		}
	}
	for a := range attrs {
		switch a {
		case "href", "target", "style", "class", "download":
		default:
			sym.Assert(false, "no-attribute-introduced-by-content")
		}
	}
	if wantText && n > 0 {
		var c int64
		countText(doc, rs, &c)
		want := int64(1)
		if shape == "table" {
			want = 2
		}
		// >=: fixed cells of the rendering (index column "1.", marker texts) may spell the same text
		sym.Assert(c >= want, "text-decodes-to-the-string")
	}
	if wantAttr != "" {
		var c int64
		countAttr(doc, wantAttr, rs, &c)
		want := int64(1)
		if shape == "style" {
			want = 2
		}
		if shape == "style" && n == 0 {
			want = 0
		}
		sym.Assert(c == want, "attribute-value-decodes-to-the-string")
	}
	switch shape {
	case "key":
		// the key is written as text followed by ':'
		var c int64
		countText(doc, append(append([]rune{}, rs...), ':'), &c)
		sym.Assert(c == 1, "key-text-decodes-to-the-string")
		sym.Assert(countElems(doc, "tr") == 1 && countElems(doc, "td") == 2, "map-structure")
	case "text":
		sym.Assert(countElems(doc, "tr") == 2, "list-structure")
	case "cut":
		// at most max(1,maxListSize) items are shown, followed by a marker if the list is longer
		shown := maxList
		if shown < 1 {
			shown = 1
		}
		rows := countElems(doc, "tr")
		if n == 0 {
			sym.Assert(rows == 0, "empty-list")
		} else if n <= shown {
			sym.Assert(rows == n, "all-items-shown")
		} else {
			sym.Assert(rows == shown+1, "cut-off-after-maxListSize-items-plus-marker")
		}
		for i := 0; i < n; i++ {
			var c int64
			countText(doc, []rune("item"+strconv.Itoa(i)), &c)
			if i < shown {
				sym.Assert(c == 1, "shown-items-in-order")
			} else {
				sym.Assert(c == 0, "items-behind-the-cut-off-are-not-shown")
			}
		}
	}
}

var _ = funcGen.NewEmptyStack[value.Value]
