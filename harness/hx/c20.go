package hx

import (
	"strconv"
	"strings"

	"github.com/hneemann/parser2/value"
	"verifharness/sym"
)

// C20 — binning conserves mass and is additive.
//
// Positions and start are symbolic on the exact grid {k/16 : |k| < 2^24};
// sizes, counts, list lengths, splittings and power-of-two weights are
// enumerated.  "far" jobs range over *every* finite float64 with start 0 and
// size 1 (where (x-start)/size is exact for every x).

func init() {
	register(&Harness{Name: "c20", Property: "C20", Jobs: c20Jobs, Run: c20Run})
}

func c20Jobs(tier string, seed int64) []string {
	jobs := []string{
		"index:1:1", "index:3:2", "index:0.25:3",
		"far:0", "far:3",
		"mass:2:1:2", "desc:1:3", "desc:0.25:2",
		"add:2:1:1", "addneg:2:1:1", "add2d:1:1:1", "add2dneg:1:1:1", "index2d:1:0", "index2d:1:0:0.5:2", "index2d:1:2:1:1",
	}
	if tier == "thorough" {
		// (counts up to 30, lists of 3-4 elements and their splittings did not finish within the thorough
		// deadline in this session and are not registered)
		jobs = append(jobs, "index:1:0", "index:10:3", "index:0.5:5", "far:1", "far:8", "index2d:1:1", "desc:3:2")
	}
	// floating-point division/floor queries: cvc5 decides them 3-4x faster than z3
	for i := range jobs {
		jobs[i] = "@solver=cvc5@" + jobs[i]
	}
	return jobs
}

const gridLimit = int64(1) << 24

// grid returns a symbolic multiple of 1/16 with |x| < 2^20.
func grid(name string) float64 {
	k := sym.Int64(name)
	sym.Assume(sym.And(k > -gridLimit, k < gridLimit))
	return float64(k) / 16
}

func floatsOf(v value.Value) ([]float64, bool) {
	l, ok := v.(*value.List)
	if !ok {
		return nil, false
	}
	sl, err := l.ToSlice(emptyStack())
	if err != nil {
		return nil, false
	}
	out := make([]float64, len(sl))
	for i, e := range sl {
		f, ok := e.(value.Float)
		if !ok {
			return nil, false
		}
		out[i] = float64(f)
	}
	return out, true
}

// inBin states the documented law for bin j of (start,size,count).
func inBin(x, start, size float64, count, j int) bool {
	switch {
	case j == 0:
		return x < start
	case j == count+1:
		return x >= start+float64(count)*size
	default:
		return sym.And(x >= start+float64(j-1)*size, x < start+float64(j)*size)
	}
}

// c20Weight: power-of-two weights (every subset has its own sum); the neg variants alternate the sign.
func c20Weight(kind string, i int) float64 {
	w := float64(int(1) << uint(i))
	if strings.HasSuffix(kind, "neg") && i%2 == 0 {
		return -w
	}
	return w
}

func c20Run(job string) {
	parts := strings.Split(job, ":")
	fg := value.New()
	atof := func(s string) float64 { f, _ := strconv.ParseFloat(s, 64); return f }
	atoi := func(s string) int { n, _ := strconv.Atoi(s); return n }
	switch parts[0] {
	case "index":
		size, count := atof(parts[1]), atoi(parts[2])
		x, start := grid("x"), grid("start")
		f := mustGen(fg, "[x].binning(start,size,count,e->e,e->1).values", "x", "start", "size", "count")
		r := eval(f, value.Float(x), value.Float(start), value.Float(size), value.Int(count))
		sym.Assert(r.ok(), "binning-defined")
		if !r.ok() {
			return
		}
		vals, ok := floatsOf(r.v)
		sym.Assert(ok && len(vals) == count+2, "values-shape")
		if !ok || len(vals) != count+2 {
			return
		}
		hits := 0
		for j, v := range vals {
			if v == 1 {
				hits++
				sym.Assert(inBin(x, start, size, count, j), "index-law")
			} else {
				sym.Assert(v == 0, "other-bins-empty")
			}
		}
		sym.Assert(hits == 1, "exactly-one-bin")
	case "far":
		// every finite float64; start 0, size 1: the quotient is x itself
		count := atoi(parts[1])
		x := sym.Float64("x")
		sym.Assume(x-x == 0) // finite
		f := mustGen(fg, "[x].binning(0,1,count,e->e,e->1).values", "x", "count")
		r := eval(f, value.Float(x), value.Int(count))
		sym.Assert(r.ok(), "binning-defined")
		if !r.ok() {
			return
		}
		vals, ok := floatsOf(r.v)
		sym.Assert(ok && len(vals) == count+2, "values-shape")
		if !ok || len(vals) != count+2 {
			return
		}
		hits := 0
		for j, v := range vals {
			if v == 1 {
				hits++
				sym.Assert(inBin(x, 0, 1, count, j), "index-law-all-floats")
			}
		}
		sym.Assert(hits == 1, "exactly-one-bin")
	case "mass":
		n, size, count := atoi(parts[1]), atof(parts[2]), atoi(parts[3])
		start := grid("start")
		var items []value.Value
		var xs []float64
		total := 0.0
		for i := 0; i < n; i++ {
			x := grid("x" + strconv.Itoa(i))
			w := float64(int(1) << uint(i))
			total += w
			xs = append(xs, x)
			items = append(items, value.NewMap(value.RealMap{"x": value.Float(x), "w": value.Float(w)}))
		}
		f := mustGen(fg, "l.binning(start,size,count,e->e.x,e->e.w).values", "l", "start", "size", "count")
		r := eval(f, value.NewList(items...), value.Float(start), value.Float(size), value.Int(count))
		sym.Assert(r.ok(), "binning-defined")
		if !r.ok() {
			return
		}
		vals, ok := floatsOf(r.v)
		sym.Assert(ok && len(vals) == count+2, "values-shape")
		if !ok {
			return
		}
		sum := 0.0
		for _, v := range vals {
			sum += v
		}
		sym.Assert(sum == total, "mass-conserved")
		// each weight bit sits in exactly the bin the law names
		for i := 0; i < n; i++ {
			bit := int64(1) << uint(i)
			found := 0
			for j, v := range vals {
				if int64(v)&bit != 0 {
					found++
					sym.Assert(inBin(xs[i], start, size, count, j), "element-in-lawful-bin")
				}
			}
			sym.Assert(found == 1, "element-in-exactly-one-bin")
		}
	case "desc":
		size, count := atof(parts[1]), atoi(parts[2])
		start := grid("start")
		f := mustGen(fg, "[].binning(start,size,count,e->e,e->1).descr", "start", "size", "count")
		r := eval(f, value.Float(start), value.Float(size), value.Int(count))
		sym.Assert(r.ok(), "binning-defined")
		if !r.ok() {
			return
		}
		l, ok := r.v.(*value.List)
		sym.Assert(ok, "descr-is-list")
		if !ok {
			return
		}
		ds, err := l.ToSlice(emptyStack())
		sym.Assert(err == nil && len(ds) == count+2, "descr-shape")
		if err != nil || len(ds) != count+2 {
			return
		}
		for j, d := range ds {
			m, ok := d.(value.Map)
			sym.Assert(ok, "descr-entry-is-map")
			if !ok {
				continue
			}
			mn, hasMin := m.Get("min")
			mx, hasMax := m.Get("max")
			sym.Assert(hasMin == (j > 0), "descr-has-min")
			sym.Assert(hasMax == (j < count+1), "descr-has-max")
			if hasMin && j > 0 {
				sym.Assert(float64(mn.(value.Float)) == start+float64(j-1)*size, "descr-min")
			}
			if hasMax && j < count+1 {
				sym.Assert(float64(mx.(value.Float)) == start+float64(j)*size, "descr-max")
			}
		}
	case "add", "addneg":
		n, size, count := atoi(parts[1]), atof(parts[2]), atoi(parts[3])
		start := grid("start")
		var items []value.Value
		for i := 0; i < n; i++ {
			x := grid("x" + strconv.Itoa(i))
			items = append(items, value.NewMap(value.RealMap{"x": value.Float(x), "w": value.Float(c20Weight(parts[0], i))}))
		}
		whole := mustGen(fg, "l.binning(start,size,count,e->e.x,e->e.w).values", "l", "start", "size", "count")
		parts2 := mustGen(fg, "[a.binning(start,size,count,e->e.x,e->e.w),b.binning(start,size,count,e->e.x,e->e.w)].collectBinning().values",
			"a", "b", "start", "size", "count")
		rw := eval(whole, value.NewList(items...), value.Float(start), value.Float(size), value.Int(count))
		sym.Assert(rw.ok(), "binning-defined")
		if !rw.ok() {
			return
		}
		wv, ok := floatsOf(rw.v)
		sym.Assert(ok, "values-shape")
		for cut := 0; cut <= n; cut++ {
			rp := eval(parts2, value.NewList(items[:cut]...), value.NewList(items[cut:]...), value.Float(start), value.Float(size), value.Int(count))
			sym.Assert(rp.ok(), "collect-defined")
			if !rp.ok() {
				continue
			}
			pv, ok2 := floatsOf(rp.v)
			sym.Assert(ok2 && len(pv) == len(wv), "collect-shape")
			if ok2 && len(pv) == len(wv) {
				for j := range wv {
					sym.Assert(pv[j] == wv[j], "additive")
				}
			}
		}
	case "index2d":
		// index2d:<xsize>:<xcount>[:<ysize>:<ycount>]  (the y axis defaults to the x axis)
		size, count := atof(parts[1]), atoi(parts[2])
		ysize, ycount := size, count
		x, y, start := grid("x"), grid("y"), grid("start")
		ystart := start
		if len(parts) >= 5 {
			ysize, ycount = atof(parts[3]), atoi(parts[4])
			ystart = grid("ystart")
		}
		f := mustGen(fg, "[{x:x,y:y}].binning2d(start,size,count,ystart,ysize,ycount,e->e.x,e->e.y,e->1).values.map(r->r.row)", "x", "y", "start", "size", "count", "ystart", "ysize", "ycount")
		r := eval(f, value.Float(x), value.Float(y), value.Float(start), value.Float(size), value.Int(count), value.Float(ystart), value.Float(ysize), value.Int(ycount))
		sym.Assert(r.ok(), "binning2d-defined")
		if !r.ok() {
			return
		}
		rows, ok := r.v.(*value.List)
		sym.Assert(ok, "rows")
		if !ok {
			return
		}
		rs, err := rows.ToSlice(emptyStack())
		sym.Assert(err == nil && len(rs) == count+2, "rows-shape")
		if err != nil {
			return
		}
		hits := 0
		for i, row := range rs {
			vals, ok := floatsOf(row)
			sym.Assert(ok && len(vals) == ycount+2, "row-shape")
			for j, v := range vals {
				if v == 1 {
					hits++
					sym.Assert(inBin(x, start, size, count, i), "index-law-x")
					sym.Assert(inBin(y, ystart, ysize, ycount, j), "index-law-y")
				}
			}
		}
		sym.Assert(hits == 1, "exactly-one-cell")
	case "add2d", "add2dneg":
		n, size, count := atoi(parts[1]), atof(parts[2]), atoi(parts[3])
		start := grid("start")
		var items []value.Value
		for i := 0; i < n; i++ {
			x, y := grid("x"+strconv.Itoa(i)), grid("y"+strconv.Itoa(i))
			items = append(items, value.NewMap(value.RealMap{"x": value.Float(x), "y": value.Float(y), "w": value.Float(c20Weight(parts[0], i))}))
		}
		b := "binning2d(start,size,count,start,size,count,e->e.x,e->e.y,e->e.w)"
		whole := mustGen(fg, "l."+b+".values.map(r->r.row)", "l", "start", "size", "count")
		coll := mustGen(fg, "[a."+b+",b."+b+"].collectBinning().values.map(r->r.row)", "a", "b", "start", "size", "count")
		rw := eval(whole, value.NewList(items...), value.Float(start), value.Float(size), value.Int(count))
		sym.Assert(rw.ok(), "binning2d-defined")
		if !rw.ok() {
			return
		}
		total := 0.0
		for cut := 0; cut <= n; cut++ {
			rp := eval(coll, value.NewList(items[:cut]...), value.NewList(items[cut:]...), value.Float(start), value.Float(size), value.Int(count))
			sym.Assert(rp.ok(), "collect2d-defined")
			if !rp.ok() {
				continue
			}
			sym.Assert(Show(rp.v) == Show(rw.v), "additive-2d")
		}
		if rows, ok := rw.v.(*value.List); ok {
			rs, _ := rows.ToSlice(emptyStack())
			for _, row := range rs {
				vals, _ := floatsOf(row)
				for _, v := range vals {
					total += v
				}
			}
		}
		wantTotal := 0.0
		for i := 0; i < n; i++ {
			wantTotal += c20Weight(parts[0], i)
		}
		sym.Assert(total == wantTotal, "mass-conserved-2d")
	default:
		panic("c20: unknown job " + job)
	}
	sym.Reach("end")
}
