package hx

import (
	"strings"
	"time"

	"github.com/hneemann/parser2/funcGen"
	"github.com/hneemann/parser2/value"
	"verifharness/sym"
)

// C06 — lazy list pipelines give the sequential result under every parallel schedule.
//
// Job = "<profile>|<pipeline over a, b>".  The pipeline contains calls of the
// host function slow(x) (identity).  It is generated twice:
//
//	reference   slow() costs nothing: the timing based switch of the iterator library never
//	            fires, every stage runs sequentially on the calling goroutine
//	subject     slow() sleeps 400µs of (virtual) time for the elements selected by the cost
//	            profile: "all" forces the switch to parallel workers, "late" delays the cost
//	            until the measurement window is over (switch forbidden although elements are
//	            slow), "early" is slow only inside the window (workers with cheap elements)
//
// a and b are symbolic; the subject runs under the engine's happens-before
// monitor (vector clocks over goroutines, channels, WaitGroups, mutexes) with
// runtime.NumCPU() and the first scheduler decisions taken from the job
// options.  Asserted: no panic, the subject's outcome equals the reference's
// (values in order, or failure in both), no pair of unsynchronised accesses.
// Natively the same harness runs under the Go race detector.

func init() {
	register(&Harness{Name: "c06", Property: "C06", Jobs: c06Jobs, Run: c06Run})
}

// stages upstream / downstream of the parallel stage all call closures
var c06Pipelines = []string{
	// parallel map between closure-calling stages
	`numbers(16).number((i,x)->i*a+x).map(x->slow(x)).combine((p,q)->p-q).reduce((p,q)->p*3+q)`,
	`numbers(16).map(x->x*a).map(x->slow(x)+b).map(x->x-a)`,
	`numbers(16).combine((p,q)->p+q*a).map(x->slow(x)).combine3((p,q,r)->p-q+r*b).sum()`,
	`numbers(16).iir(x->a,(x,l)->l+x).map(x->slow(x)).iirCombine(x->b,(p,q,l)->l+q-p).last()`,
	`numbers(16).map(x->slow(x)*a).combineN(3,l->l[0]+l[1]*2+l[2]*b).mapReduce(0,(s,x)->s*2+x)`,
	`numbers(16).fsm((s,x)->goto((s.state+x)%3)).map(s->slow(s.state+a)).compact((p,q)->p=q).size()`,
	`numbers(16).map(x->slow(x)%4).order(x->-x).map(x->x*a).first()+numbers(16).map(x->slow(x)).minMax(x->(x-5)*(x-5)).min*b`,
	`numbers(16).map(x->slow(x+a)).visit(0,(v,x)->v*2+x)`,
	`numbers(16).map(x->slow(x)).groupByInt(x->x%3).map(e->e.values.reduce((p,q)->p*a+q)).sum()`,
	// parallel accept
	`numbers(30).number((i,x)->x+i).accept(x->slow(x)%3=b%3).number((i,x)->x*a-i)`,
	`numbers(30).accept(x->slow(x)%2=a%2).combine((p,q)->p*b+q).size()`,
	// two parallel stages in a row, and nested
	`numbers(16).map(x->slow(x)+a).map(x->slow(x)*b).reduce((p,q)->p-q)`,
	`numbers(16).map(x->slow(x)+a).accept(x->slow(x)>=b).size()`,
	`numbers(14).map(x->numbers(14).map(y->slow(y)*a+x).sum()).map(x->slow(x)).reduce((p,q)->p+q*b)`,
	// lazy stages without closures around the parallel stage
	`(numbers(16).map(x->slow(x)*a)+numbers(14).map(x->slow(x)-b)).skip(2).top(25)`,
	`numbers(16).map(x->slow(x)*a).cross(numbers(2),(p,q)->p+q*b).skip(1).sum()`,
	// channel fed stages: merge, multiUse
	`numbers(16).map(x->slow(x)*2+a%2).merge(numbers(16).map(x->slow(x)*2+1),(p,q)->p<q).combine((p,q)->q-p)`,
	`numbers(16).number((i,x)->x*2+a%2).merge(numbers(16).number((i,x)->x*2+1),(p,q)->p<q).combine((p,q)->q-p+b)`,
	`numbers(6).iir(x->a%2,(x,l)->l+2).merge(numbers(6).combine((p,q)->p+q),(p,q)->p<q).size()`,
	`numbers(16).map(x->slow(x)+a).multiUse({s:l->l.reduce((p,q)->p+q),c:l->l.combine((p,q)->p*b-q).size(),m:l->l.map(x->slow(x)*a).last()})`,
	`numbers(16).number((i,x)->i+x+a).multiUse({u:l->l.map(x->slow(x)).combine((p,q)->p+q).sum(),v:l->l.accept(x->slow(x)%2=b%2).size()})`,
	// every closure-calling stage as a source of merge (each source is iterated by its own goroutine)
	`numbers(8).number((i,x)->x*2+a%2).merge(numbers(8).compact((p,q)->p+1=q-1),(p,q)->p<q).sum()`,
	`numbers(8).combine((p,q)->p+q+a%2).merge(numbers(8).combine3((p,q,r)->p+q+r),(p,q)->p<q).sum()`,
	`numbers(8).combineN(2,w->w[0]+w[1]).merge(numbers(8).iir(x->x,(x,o)->o+x),(p,q)->p<q).mapReduce(b,(s,x)->s*3+x)`,
	`numbers(8).iirCombine(x->x,(p,q,o)->o+q-p+1).merge(numbers(8).fsm((s,x)->goto((s.state+x)%3)).map(s->s.state),(p,q)->p<q).sum()+a`,
	`numbers(8).cross([1,2],(p,q)->p*2+q).merge(numbers(8).accept(x->x%2=a%2).number((i,x)->x+i),(p,q)->p<q).sum()`,
	`numbers(8).compact((p,q)->p=q).number((i,x)->x+i).merge(numbers(8).map(x->x*2).compact((p,q)->p=q+b*0),(p,q)->p<q).reduce((p,q)->p*2+q)`,
	// windows and elements that escape from a stage into a parallel stage; run-time concatenations of stack-using stages
	`numbers(20).map(x->x+a).combineN(4,w->w).map(w->slow(w[0])+w[3]*b).sum()`,
	`numbers(20).combineN(3,w->w).accept(w->slow(w[1])>=0).map(w->w[0]*100+w[2]+a).sum()`,
	`(numbers(10).map(x->x+a).combine3((p,q,r)->p+q+r)+numbers(10).number((i,x)->x*b+i)).map(x->slow(x)).combine((p,q)->p-q).sum()`,
	`(numbers(9).number((i,x)->x+i*a)+numbers(9).iir(x->x,(x,o)->o+x+b)).accept(x->slow(x)>=0).number((i,x)->x-i).sum()`,
	// helper closures bound by let, called from the closures of parallel stages
	`let add=(p,q)->p*2+q; numbers(16).map(x->add(x,slow(x)+a)).sum()`,
	`let add=(p,q)->p*2+q; let sq=x->add(x,x); numbers(16).map(x->sq(slow(x))+add(b,x)).combine((p,q)->add(p,q)).sum()`,
	`let pick=(p,q,r)->if p then q else r; numbers(30).accept(x->pick(slow(x)%2=a%2,true,false)).map(x->pick(x>b,x,0-x)).sum()`,
	`func h(p,q) p*3-q; numbers(16).map(x->h(slow(x),x+a)).number((i,x)->h(i,x)).sum()`,
	// multiUse consumers that return lazy lists (forced by multiUse itself, in lock step)
	`numbers(16).number((i,x)->i+x+a).multiUse({u:l->l.combine((p,q)->p*b-q),v:l->l.combine3((p,q,r)->p+q-r+a),w:l->l.number((i,x)->x-i)})`,
	`numbers(16).map(x->slow(x)+a).multiUse({u:l->l.iir(x->x,(x,o)->o+x*b),v:l->l.combineN(3,w->w[0]-w[2]),w:l->l.map(x->slow(x)).compact((p,q)->p=q)})`,
	// failing elements: consumed completely, both must fail
	`numbers(16).map(x->if slow(x)=14 then throw("e") else x*a).reduce((p,q)->p+q)`,
	`numbers(16).map(x->slow(x)).map(x->if x=a%16 then throw("e") else x).combine((p,q)->p+q).size()`,
	`numbers(30).accept(x->if x=20 then throw("e") else slow(x)%2=b%2).size()`,
	// early stopping consumers behind a parallel stage
	`numbers(20).map(x->slow(x)+a).top(14)`,
	`numbers(20).map(x->slow(x)*b).indexWhere(x->x=13*b)`,
	`numbers(20).map(x->slow(x)+a).combine((p,q)->p+q).first()+numbers(20).map(x->slow(x)).present(x->x=a)`,
}

func c06Jobs(tier string, seed int64) []string {
	var jobs []string
	add := func(opt, prof, p string) {
		// vacuity guards on the engine's spawn markers: the forcing profiles must reach the
		// library's parallel mode, the forbidding ones (late, one CPU) must not
		switch {
		case opt == "numcpu=1" || (prof == "late" && !strings.Contains(p, "->numbers(") && !strings.Contains(p, "accept(")):
			// (a nested slow list makes the outer elements slow; behind an accept stage the late, slow elements
			// of the source fall into the measurement window of the next stage)
			opt += ",expectnot=initParallel"
		case prof != "late" && strings.Contains(p, "slow("):
			opt += ",expect=initParallel"
		}
		if strings.Contains(p, ".merge(") {
			opt += ",expect=ToChan"
		}
		if strings.Contains(p, ".multiUse(") {
			opt += ",expect=MultiUse"
		}
		jobs = append(jobs, "@"+opt+",noleak=1,race=1,steps=80000000@"+prof+"|"+p)
	}
	for pi, p := range c06Pipelines {
		add("numcpu=4", "all", p)
		if tier == "thorough" || pi%3 == int(seed%3+3)%3 {
			add("numcpu=2", "all", p)
			add("numcpu=4", "late", p)
			add("numcpu=4", "early", p)
		}
		if tier == "thorough" {
			add("numcpu=1", "all", p)
			add("numcpu=16", "all", p)
			// scheduler decisions multiply the data dependent paths: pipelines whose closures branch on a, b are left out
			if !strings.Contains(p, "accept(") && !strings.Contains(p, "throw(") && !strings.Contains(p, "present(") && !strings.Contains(p, "indexWhere(") {
				add("numcpu=2,sched=4", "all", p)
				if pi%4 == 0 {
					add("numcpu=4,sched=5", "all", p)
					add("numcpu=4,sched=3", "early", p)
				}
			}
		} else if pi%5 == int(seed%5+5)%5 {
			add("numcpu=2,sched=3", "all", p)
		}
	}
	return jobs
}

func c06Generator(profile string) *value.FunctionGenerator {
	fg := value.New()
	fg.AddStaticFunction("slow", funcGen.Function[value.Value]{
		Func: func(st funcGen.Stack[value.Value], cs []value.Value) (value.Value, error) {
			v := st.Get(0)
			// late/early look at the element itself where it is a concrete number (the element
			// index in most pipelines): 13 elements cover the measurement window of the library
			idx, known := int64(0), false
			if iv, ok := v.(value.Int); ok && !sym.IsSym(int64(iv)) {
				idx, known = int64(iv), true
			}
			switch profile {
			case "all":
				time.Sleep(400 * time.Microsecond)
			case "late":
				if known && idx >= 13 {
					time.Sleep(400 * time.Microsecond)
				}
			case "early":
				if !known || idx < 13 {
					time.Sleep(400 * time.Microsecond)
				}
			}
			return v, nil
		},
		Args: 1, IsPure: false})
	return fg
}

// c06Force materialises every lazy list inside v (the native twin and the engine do the
// same work inside the monitored window).
func c06Force(v value.Value, depth int) error {
	if depth > 6 {
		return nil
	}
	switch x := v.(type) {
	case *value.List:
		xs, err := x.ToSlice(emptyStack())
		if err != nil {
			return err
		}
		for _, e := range xs {
			if err := c06Force(e, depth+1); err != nil {
				return err
			}
		}
	case value.Map:
		var ferr error
		x.Iter(func(k string, e value.Value) bool {
			ferr = c06Force(e, depth+1)
			return ferr == nil
		})
		return ferr
	}
	return nil
}

func c06Eval(f VFunc, args []value.Value) (r res) {
	r = eval(f, args...)
	if r.ok() {
		func() {
			defer func() {
				if rec := recover(); rec != nil {
					r = res{panicked: true}
				}
			}()
			if err := c06Force(r.v, 0); err != nil {
				r = res{err: err}
			}
		}()
	}
	return r
}

func c06Run(job string) {
	profile, prog, _ := strings.Cut(job, "|")
	a, b := sym.Int64("a"), sym.Int64("b")
	args := []value.Value{value.Int(a), value.Int(b)}

	ref := mustGen(c06Generator("none"), prog, "a", "b")
	want := c06Eval(ref, args)
	sym.Assert(!want.panicked, "reference-no-panic")

	sub := mustGen(c06Generator(profile), prog, "a", "b")
	sym.Mark("race-on")
	got := c06Eval(sub, args)
	sym.Mark("race-off")

	sym.Reach("compared")
	sym.Assert(!got.panicked, "no-panic")
	if want.ok() {
		sym.Assert(got.ok(), "fails-although-sequential-succeeds")
		if got.ok() {
			sym.Assert(valEq(want.v, got.v), "value-differs-from-sequential")
		}
	} else {
		sym.Assert(!got.ok(), "succeeds-although-sequential-fails")
	}
}
