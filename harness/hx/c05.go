package hx

import (
	"strings"
	"time"

	"github.com/hneemann/parser2/funcGen"
	"github.com/hneemann/parser2/value"
	"verifharness/sym"
)

// C05 — no program can crash the host: every runtime fault is an ordinary error.
//
// Job = "<context>|<fault>": a fault source (expression over the SYMBOLIC ints a, b and
// the wrong-typed constants s="x", l=[1,2]) placed in a context.  Checked:
// Eval returns (no Go panic leaves it), no goroutine dies from a panic (engine
// escape monitor; natively the process would crash), and "try <context> catch 7"
// yields 7 whenever the fault alone yields an error.
//
// Forced-parallel contexts use the host function slow(x), which sleeps 400µs
// (virtual time in the engine), so that the library's timing based switch to
// worker goroutines happens; runtime.NumCPU() is 4 in the engine.

func init() {
	register(&Harness{Name: "c05", Property: "C05", Jobs: c05Jobs, Run: c05Run})
}

var c05Faults = []string{
	// arithmetic faults with symbolic operands
	`a%b`, `a<<b`, `a>>b`, `a/b`, `a^b`, `7%(b-b)`, `1<<(0-1-(b&255))`,
	// incomparable / wrong-typed operands for every operator
	`a~{k:1}`, `[1]~{k:1}`, `"k"~a`, `{k:1}~{k:1}`, `1.5~[1]`, `(x->x)~[1]`,
	`a!="x"`, `a="x"`, `a<"x"`, `a>"x"`, `a<="x"`, `a>="x"`, `"x"!=a`, `a~"x"`, `a~7`, `[1]!="x"`, `{k:1}!=[1]`, `true!=a`, `(x->x)!=(x->x)`, `(x->x)=1`,
	`a+true`, `true-a`, `"x"*a`, `a/"x"`, `a%"x"`, `a<<"x"`, `-"x"`, `!a`, `a&b`, `true&a`, `a|true`, `[1]+a`, `{k:1}+{k:2}`, `{k:1}-1`,
	`switch a case "x": 1 default 2`, `switch "x" case a: 1 default 2`, `switch [1] case a: 1 default 2`, `if a then 1 else 2`, `if "x" then 1 else 2`,
	// indices, members, calls, arity
	`[1,2][a]`, `[1,2]["x"]`, `[1,2][a][a]`, `{k:1}.z`, `a.k`, `"x".k`, `a(1)`, `"x"(1)`, `(x->x)(1,2)`, `((x,y)->x)(1)`, `{f:x->x}.f(1,2)`, `{f:1}.f(1)`,
	`((x,y)->x+y).invoke([1])`, `((x,y)->x+y).invoke([1,2,3])`, `((x,y)->x+y).invoke(3)`, `(x->x).invoke()`, `(x->x).args(1)`, `(x->x).nosuch()`,
	// static functions and methods: wrong types and counts
	`sqrt("x")`, `sqrt(1,2)`, `sqrt()`, `abs("x")`, `abs([1])`, `min(a,"x")`, `max("x",a)`, `min()+1`, `[min()]`, `string(1,2)`, `numbers("x").size()`, `numbers(0-1-(b&255)).size()`, `round("x")`, `int("x")`,
	`[1,2].map(3).size()`, `[1,2].map((x,y)->x).size()`, `[1,2].reduce(x->x)`, `[].first()`, `[].reduce((p,q)->p)`, `[1,2].top("x").size()`, `[1,2].skip([1]).size()`, `[1,2].set(a,1)`, `[1,2].set("x",1)`,
	`[1,2].nosuch()`, `a.nosuch()`, `[1,2].accept(x->x).size()`, `[1,2].indexWhere(x->7)`, `[1,2].order(x->[x]).size()`, `[1,"x"].order(x->x).size()`, `[1,2].orderLess((p,q)->7).size()`, `[1,2].combineN("x",w->w).size()`,
	`[1,2].combineN(0,w->w).size()`, `[1,2].combineN(0-1,w->w).size()`, `[1,2].cross(3,(p,q)->p).size()`, `[1,2].merge(3,(p,q)->p<q).size()`, `[1,2].merge([1],(p,q)->7).size()`, `[1,2].multiUse(3)`, `[1,2].multiUse({u:3})`, `[1,2].multiUse({u:l->l.nosuch()})`,
	`[1,2].groupByInt(x->"k").size()`, `[1,2].groupByString(x->x).size()`, `[1,2].uniqueInt(x->[x]).size()`, `[1,2].minMax(x->"k")`, `[1,"x"].minMax(x->x)`, `[1,"x"].sum()`, `[1,[2]].mean()`, `[1,2].iir(3,4).size()`, `[1,2].visit(0,3)`, `[1,2].fsm(x->x).size()`,
	`[1,2].binning(0,0,2,x->x,x->1)`, `[1,2].binning("x",1,2,x->x,x->1)`, `[1,2].binning(0,1,0-5,x->x,x->1)`, `[1].collectBinning()`, `[1,2].movingWindow(x->"k").size()`, `[1,2].top(0-1-(b&255)).size()`, `[1,2].skip(0-1-(b&255)).size()`, `[1,2,3].skip(0-1-z).first()`, `numbers(3).eval().skip(0-2-z).size()`,
	`"abc".cut("x",1)`, `"abc".cut(0-1-(b&255),1)`, `"abc".split(1)`, `"abc".toInt()`, `"abc".nosuch()`, `{k:1}.put(a,1)`, `{k:1}.put("k",1)`, `{k:1}.get(a)`, `{k:1}.get("z")`, `{k:1}.replace(3)`, `{k:1}.replace(m->3)`, `{k:1}.map(3)`, `{k:1}.accept((k,v)->7)`, `{k:1}.combine(3,(p,q)->p)`, `{k:1}.combine({z:1},(p,q)->p)`,
	// host functions and explicit throw
	`throw("boom")`, `throw(a)`, `hostPanic(a)`, `hostNilErr(a)+1`, `hostErr(a)`,
	// faults inside capture-free closures (only the element z and constants): the optimizer treats such
	// closure literals as constants; NaN and infinities as binning input
	`hostPanicPure(z)`, `(f->f(f,z))((f,k)->f(f,k+1))`, `1%(z-z)`, `[1][z+5]`, `z.nosuch()`, `z<"x"`,
	`[0/0*z].binning(0,1,3,x->x,x->1).values.size()`, `[1/0,0-1/0,z].binning(0,1,3,x->x,x->1).values.size()`, `[{x:0/0,y:z}].binning2d(0,1,2,0,1,2,e->e.x,e->e.y,e->1).values.size()`,
	`[0/0].binning(0/0,1,3,x->x,x->1).values.size()`, `[z].binning(0,0/0,3,x->x,x->1).values.size()`,
	// recursion
	`func r(n) r(n+1); r(a)`, `func r(n) 1+r(n); r(a)`, `func r(n) [r(n)]; r(a)`,
	// ... through the closures that library methods call (they run on stacks of their own)
	// (more shapes - merge, multiUse, reduce, order - are exhibited natively only: the interpreter needs
	// minutes to unwind their 10^4 nested error wrappers)
	`func r(n) [1].map(e->r(n+1)).sum(); r(a)`, `func r(n) [1].accept(e->r(n+1)>0).first(); r(a)`,
}

// contexts: @ is replaced by the fault expression
var c05Contexts = map[string]string{
	"top":       `@`,
	"closure":   `(z->@)(1)`,
	"try":       `try @ catch 7`,
	"tryclo":    `try (z->@)(1) catch 7`,
	"trynested": `try (try @ catch throw("again")) catch 7`,
	"seqmap":    `try [1,2].map(z->@).reduce((p,q)->p) catch 7`,
	"seqacc":    `try [1,2].accept(z->@).size() catch 7`,
	"parmap":    `try numbers(30).map(z->if z<13 then slow(z) else @).reduce((p,q)->p) catch 7`,
	"paracc":    `try numbers(30).accept(z->if z<13 then slow(z)>=0 else @).size() catch 7`,
	"pardown":   `try numbers(30).map(z->slow(z)).map(z->if z<20 then z else @).reduce((p,q)->p) catch 7`,
	"mergeop":   `try numbers(3).map(z->@).merge(numbers(3),(p,q)->p<q).size() catch 7`,
	"mergefn":   `try numbers(3).merge(numbers(3),(p,q)->@).size() catch 7`,
	"multiuse":  `try numbers(5).multiUse({u:l->l.map(z->@).size(),v:l->l.size()}).v catch 7`,
	"multiuse2": `try numbers(5).map(z->@).multiUse({u:l->l.size(),v:l->l.first()}).v catch 7`,
	"listeq":    `try numbers(3).map(z->@)=[1,2,3] catch 7`,
	"mulazy":    `try numbers(5).multiUse({u:l->l.map(z->@),v:l->l.size()}).v catch 7`,
	"mulazy2":   `try numbers(5).multiUse({u:l->[@].map(z->z),v:l->l.size()}).v catch 7`,
	"mulazy3":   `try numbers(5).multiUse({u:l->{inv:l.map(z->@)},v:l->l.size()}).v catch 7`,
	"mulazy4":   `try numbers(5).multiUse({u:l->[[l.map(z->@)]],v:l->l.size()}).v catch 7`,
}

var c05ContextOrder = []string{"top", "closure", "try", "tryclo", "trynested", "seqmap", "seqacc", "parmap", "paracc", "pardown", "mergeop", "mergefn", "multiuse", "multiuse2", "listeq", "mulazy", "mulazy3", "mulazy4"}

func c05Jobs(tier string, seed int64) []string {
	var jobs []string
	r := rng(seed, "c05")
	for fi, f := range c05Faults {
		for ci, c := range c05ContextOrder {
			_ = strings.HasPrefix(c, "par")
			recursion := strings.Contains(f, "func r(") || strings.Contains(f, "f(f,")
			if recursion && !(c == "top" || c == "try" || (tier == "thorough" && (c == "closure" || c == "tryclo"))) {
				continue // 10^4 levels of recursion cost the interpreter up to two minutes per job
			}
			if recursion && tier != "thorough" && (strings.Contains(f, "1+r(n)") || strings.Contains(f, "[r(n)]")) {
				continue // five minutes each: thorough tier only
			}
			usesZ := strings.Contains(f, "z")
			if usesZ && !strings.Contains(c05Contexts[c], "z->") {
				continue // the element z exists only inside the closure contexts
			}
			if tier != "thorough" && !usesZ {
				// quick: top and try for every fault, three more contexts sampled per fault
				if !(c == "top" || c == "try") && (fi+ci+int(seed))%5 != 0 && r.Intn(6) != 0 {
					continue
				}
			}
			jobs = append(jobs, "@numcpu=4,noleak=1,steps=60000000@"+c+"|"+f)
		}
	}
	for pi, p := range c05Poison {
		for ci, c := range c05Consumers {
			// quick: NaN and the infinities against every consumer, the other poisons sampled
			if tier != "thorough" && pi > 4 && (pi+ci+int(seed))%4 != 0 {
				continue
			}
			jobs = append(jobs, "@numcpu=4,noleak=1,steps=60000000,expect=initParallel@coll|"+p+"|"+c)
		}
	}
	return jobs
}

// poisoned elements behind a forced-parallel stage: the consuming stage or terminal runs its own
// (library) code on the collector goroutine, where a panic would not pass any closure wrapper
var c05Poison = []string{`0/0`, `1/0`, `0-1/0`, `[1,2,3].eval().skip(0-2-z*0)`, `numbers(4).eval().top(0-1-z*0)`, `"s"`, `[z]`, `{k:z}`, `true`, `x->x`, `1e300*1e300`, `0.5`}
var c05Consumers = []string{
	`sum()`, `mean()`, `reduce((p,q)->p+q)`, `order(x->x).size()`, `orderRev(x->x).first()`, `orderLess((p,q)->p<q).size()`, `minMax(x->x).min`, `min()`, `max()`,
	`binning(0,1,3,x->x,x->1).values.size()`, `binning(0,5,40,x->x,x->x).values.size()`, `map(x->{x:x,y:x}).binning2d(0,1,3,0,1,3,e->e.x,e->e.y,e->1).values.size()`,
	`groupByInt(x->x).size()`, `groupByString(x->"k"+x).size()`, `groupByEqual(x->x).size()`, `uniqueInt(x->x).size()`, `uniqueString(x->""+x).size()`,
	`combine((p,q)->p+q).sum()`, `iir(x->x,(x,l)->l+x).last()`, `movingWindow(x->x).size()`, `compact((p,q)->p=q).size()`, `top(25).size()`, `string()`,
	`mapReduce(0,(s,x)->s+x)`, `visit(0,(v,x)->v+x)`, `indexWhere(x->x>100)`, `present(x->x<0)`, `number((i,x)->i+x).sum()`, `fsm((s,x)->goto(x%2)).size()`,
	`createInterpolation(x->x,x->x)(3)`, `linearReg(x->x,x->x).a`, `accept(x->x>0).size()`, `[300] ~ numbers(3)`, `cross([1],(p,q)->p+q).sum()`, `reverse().first()`, `set(3,1).size()`, `append(1).size()`, `eval().skip(0-3).size()`, `map(x->[x]).string()`, `multiUse({u:l->l.map(x->x),v:l->l.size()}).u.string()`, `eval().top(0-3).size()`, `eval().skip(100).size()`,
}

func c05Generator() *value.FunctionGenerator {
	fg := value.New()
	host := func(name string, fn func(v value.Value) (value.Value, error)) {
		fg.AddStaticFunction(name, funcGen.Function[value.Value]{
			Func: func(st funcGen.Stack[value.Value], cs []value.Value) (value.Value, error) { return fn(st.Get(0)) },
			Args: 1, IsPure: false})
	}
	host("slow", func(v value.Value) (value.Value, error) {
		time.Sleep(400 * time.Microsecond)
		return v, nil
	})
	host("hostPanic", func(v value.Value) (value.Value, error) { panic("host function panics") })
	fg.AddStaticFunction("hostPanicPure", funcGen.Function[value.Value]{
		Func: func(st funcGen.Stack[value.Value], cs []value.Value) (value.Value, error) { panic("pure host function panics") },
		Args: 1, IsPure: true})
	host("hostNilErr", func(v value.Value) (value.Value, error) { return nil, nil })
	host("hostErr", func(v value.Value) (value.Value, error) { return nil, errPanic })
	return fg
}

func c05Run(job string) {
	ctx, fault, _ := strings.Cut(job, "|")
	if ctx == "coll" {
		poison, consumer, _ := strings.Cut(fault, "|")
		fg := c05Generator()
		prog := "try numbers(30).map(z->slow(z)).map(z->if z<20 then z else " + poison + ")." + consumer + " catch 7"
		if strings.HasPrefix(consumer, "[") {
			prog = "try " + strings.Replace(consumer, "numbers(3)", "numbers(30).map(z->slow(z)).map(z->if z<20 then z else "+poison+")", 1) + " catch 7"
		}
		f, _, err := fg.Generate(prog)
		if err != nil {
			sym.Note("not generated: " + err.Error())
			sym.Assert(false, "collector-program-generates")
			return
		}
		r := eval(f)
		sym.Assert(!r.panicked, "no-panic-leaves-eval")
		sym.Assert(r.ok(), "try-catches-whatever-the-consumer-raises")
		sym.Mark("quiesce")
		sym.Reach("end")
		return
	}
	fg := c05Generator()
	a, b := sym.Int64("a"), sym.Int64("b")
	args := []value.Value{value.Int(a), value.Int(b)}
	// the fault alone
	alone := fault
	if strings.Contains(fault, "z") {
		alone = "(z->" + fault + ")(1)" // faults on the element z: evaluated alone with an element bound
	}
	ff, _, ferr := fg.Generate(alone, "a", "b")
	faultErrors := ferr != nil
	recursion := strings.Contains(fault, "func r(") || strings.Contains(fault, "f(f,")
	if ferr == nil && !recursion {
		r0 := eval(ff, args...)
		faultErrors = !r0.ok()
	} else if recursion {
		faultErrors = true
	}
	prog := strings.Replace(c05Contexts[ctx], "@", fault, 1)
	f, _, err := fg.Generate(prog, "a", "b")
	if err != nil {
		// rejected at generation: an ordinary error as well - but never because the harness wrote bad syntax
		if strings.Contains(err.Error(), "error parsing expression") {
			sym.Note("syntax error in the program: " + err.Error())
			sym.Assert(false, "template-parses")
		}
		sym.Reach("end")
		return
	}
	r := eval(f, args...)
	sym.Assert(!r.panicked, "no-panic-leaves-eval")
	if strings.HasPrefix(c05Contexts[ctx], "try") && faultErrors && !r.panicked {
		// the fault is evaluated in all these contexts (first element / first call), so it must be caught
		sym.Assert(r.ok(), "fault-is-catchable-by-try")
		if r.ok() {
			sym.Assert(valEq(r.v, value.Int(7)), "try-yields-the-catch-value")
		}
	}
	if recursion && !strings.HasPrefix(c05Contexts[ctx], "try") {
		sym.Assert(!r.ok(), "runaway-recursion-ends-in-an-error")
	}
	sym.Mark("quiesce")
	sym.Reach("end")
}
