package hx

import (
	"errors"
	"strconv"
	"strings"

	"github.com/hneemann/parser2/value"
	"verifharness/sym"
)

// C07 — the built-in list, map, string and numeric library matches its documented model.
//
// Job = "<case>:<n>": built-in case applied to a receiver list of n SYMBOLIC
// 64-bit ints (l), a second list of 2 symbolic ints (m) and a symbolic int
// argument a (for index-like parameters assumed into [-2,6]).  Oracle: an eager
// reference implementation over Go slices in this file.

func init() {
	register(&Harness{Name: "c07", Property: "C07", Jobs: c07Jobs, Run: c07Run})
}

type c07In struct {
	l, m []value.Int
	a    value.Int
}

type c07Case struct {
	name string
	prog string
	ref  func(in c07In) (value.Value, bool)
	minN int
}

func ints(xs ...value.Int) value.Value {
	vs := make([]value.Value, len(xs))
	for i, x := range xs {
		vs[i] = x
	}
	return value.NewList(vs...)
}

func vals(xs []value.Int) []value.Value {
	vs := make([]value.Value, len(xs))
	for i, x := range xs {
		vs[i] = x
	}
	return vs
}

var c07Cases = []c07Case{
	{"map", "l.map(x->x*2+a)", func(in c07In) (value.Value, bool) {
		var o []value.Int
		for _, x := range in.l {
			o = append(o, x*2+in.a)
		}
		return ints(o...), true
	}, 0},
	{"accept", "l.accept(x->x>a)", func(in c07In) (value.Value, bool) {
		var o []value.Int
		for _, x := range in.l {
			if x > in.a {
				o = append(o, x)
			}
		}
		return ints(o...), true
	}, 0},
	{"reduce", "l.reduce((p,q)->p*3+q)", func(in c07In) (value.Value, bool) {
		if len(in.l) == 0 {
			return nil, false
		}
		acc := in.l[0]
		for _, x := range in.l[1:] {
			acc = acc*3 + x
		}
		return acc, true
	}, 0},
	{"mapReduce", "l.mapReduce(a,(s,x)->s*2+x)", func(in c07In) (value.Value, bool) {
		acc := in.a
		for _, x := range in.l {
			acc = acc*2 + x
		}
		return acc, true
	}, 0},
	{"sum", "l.sum()", func(in c07In) (value.Value, bool) {
		if len(in.l) == 0 {
			return nil, false
		}
		var s value.Int
		for _, x := range in.l {
			s += x
		}
		return s, true
	}, 0},
	{"size", "l.size()+l.map(x->x).size()*10+l.accept(x->true).size()*100", func(in c07In) (value.Value, bool) {
		return value.Int(len(in.l) * 111), true
	}, 0},
	{"first", "l.first()", func(in c07In) (value.Value, bool) {
		if len(in.l) == 0 {
			return nil, false
		}
		return in.l[0], true
	}, 0},
	{"last", "l.last()", func(in c07In) (value.Value, bool) {
		if len(in.l) == 0 {
			return nil, false
		}
		return in.l[len(in.l)-1], true
	}, 0},
	{"single", "l.single()", func(in c07In) (value.Value, bool) {
		if len(in.l) != 1 {
			return nil, false
		}
		return in.l[0], true
	}, 0},
	{"top", "l.top(a)", func(in c07In) (value.Value, bool) {
		// a negative count has no documented meaning: assumed away in the harness
		n := int(in.a)
		if n > len(in.l) {
			n = len(in.l)
		}
		return ints(in.l[:n]...), true
	}, 0},
	{"skip", "l.skip(a)", func(in c07In) (value.Value, bool) {
		n := int(in.a)
		if n < 0 {
			n = 0
		}
		if n > len(in.l) {
			n = len(in.l)
		}
		return ints(in.l[n:]...), true
	}, 0},
	{"reverse", "l.reverse()", func(in c07In) (value.Value, bool) {
		var o []value.Int
		for i := len(in.l) - 1; i >= 0; i-- {
			o = append(o, in.l[i])
		}
		return ints(o...), true
	}, 0},
	{"set", "[l.set(a,7), l]", func(in c07In) (value.Value, bool) {
		i := int(in.a)
		if i < 0 || i >= len(in.l) {
			return nil, false
		}
		o := append([]value.Int{}, in.l...)
		o[i] = 7
		return value.NewList(ints(o...), ints(in.l...)), true
	}, 0},
	{"append", "[l.append(a), l.append(a).append(a), l]", func(in c07In) (value.Value, bool) {
		return value.NewList(ints(append(append([]value.Int{}, in.l...), in.a)...), ints(append(append([]value.Int{}, in.l...), in.a, in.a)...), ints(in.l...)), true
	}, 0},
	{"index", "l[a]", func(in c07In) (value.Value, bool) {
		i := int(in.a)
		if i < 0 || i >= len(in.l) {
			return nil, false
		}
		return in.l[i], true
	}, 0},
	{"indexWhere", "l.indexWhere(x->x=a)", func(in c07In) (value.Value, bool) {
		for i, x := range in.l {
			if x == in.a {
				return value.Int(i), true
			}
		}
		return value.Int(-1), true
	}, 0},
	{"present", "l.present(x->x=a)", func(in c07In) (value.Value, bool) {
		for _, x := range in.l {
			if x == in.a {
				return value.Bool(true), true
			}
		}
		return value.Bool(false), true
	}, 0},
	{"combine", "l.combine((p,q)->q-p*2)", func(in c07In) (value.Value, bool) {
		var o []value.Int
		for i := 0; i+1 < len(in.l); i++ {
			o = append(o, in.l[i+1]-in.l[i]*2)
		}
		return ints(o...), true
	}, 0},
	{"combine3", "l.combine3((p,q,r)->p*100+q*10+r)", func(in c07In) (value.Value, bool) {
		var o []value.Int
		for i := 0; i+2 < len(in.l); i++ {
			o = append(o, in.l[i]*100+in.l[i+1]*10+in.l[i+2])
		}
		return ints(o...), true
	}, 0},
	{"combineN", "l.combineN(3,w->w[0]*100+w[1]*10+w[2])", func(in c07In) (value.Value, bool) {
		var o []value.Int
		for i := 0; i+2 < len(in.l); i++ {
			o = append(o, in.l[i]*100+in.l[i+1]*10+in.l[i+2])
		}
		return ints(o...), true
	}, 0},
	{"combineN2", "l.combineN(2,w->w[0]*10+w[1]+w.size()*1000)", func(in c07In) (value.Value, bool) {
		var o []value.Int
		for i := 0; i+1 < len(in.l); i++ {
			o = append(o, in.l[i]*10+in.l[i+1]+2000)
		}
		return ints(o...), true
	}, 0},
	{"number", "l.number((i,x)->i*1000+x)", func(in c07In) (value.Value, bool) {
		var o []value.Int
		for i, x := range in.l {
			o = append(o, value.Int(i)*1000+x)
		}
		return ints(o...), true
	}, 0},
	{"compact", "l.compact((p,q)->p=q)", func(in c07In) (value.Value, bool) {
		var o []value.Int
		for i, x := range in.l {
			if i == 0 || x != in.l[i-1] {
				o = append(o, x)
			}
		}
		return ints(o...), true
	}, 0},
	{"cross", "l.cross(m,(p,q)->p*10+q)", func(in c07In) (value.Value, bool) {
		var o []value.Int
		for _, x := range in.l {
			for _, y := range in.m {
				o = append(o, x*10+y)
			}
		}
		return ints(o...), true
	}, 0},
	{"merge", "l.merge(m,(p,q)->p<q)", func(in c07In) (value.Value, bool) {
		// takes from the first list while less(first,second) holds, else from the second; rest appended
		var o []value.Int
		i, j := 0, 0
		for i < len(in.l) && j < len(in.m) {
			if in.l[i] < in.m[j] {
				o = append(o, in.l[i])
				i++
			} else {
				o = append(o, in.m[j])
				j++
			}
		}
		o = append(o, in.l[i:]...)
		o = append(o, in.m[j:]...)
		return ints(o...), true
	}, 0},
	{"concat", "l+m+l", func(in c07In) (value.Value, bool) {
		return ints(append(append(append([]value.Int{}, in.l...), in.m...), in.l...)...), true
	}, 0},
	{"iir", "l.iir(x->x*2,(x,last)->x+last*3)", func(in c07In) (value.Value, bool) {
		var o []value.Int
		for i, x := range in.l {
			if i == 0 {
				o = append(o, x*2)
			} else {
				o = append(o, x+o[i-1]*3)
			}
		}
		return ints(o...), true
	}, 0},
	{"iirCombine", "l.iirCombine(x->x,(p,q,last)->p*100+q*10+last)", func(in c07In) (value.Value, bool) {
		var o []value.Int
		for i, x := range in.l {
			if i == 0 {
				o = append(o, x)
			} else {
				o = append(o, in.l[i-1]*100+x*10+o[i-1])
			}
		}
		return ints(o...), true
	}, 0},
	{"visit", "l.visit(a,(v,x)->v*2-x)", func(in c07In) (value.Value, bool) {
		acc := in.a
		for _, x := range in.l {
			acc = acc*2 - x
		}
		return acc, true
	}, 0},
	{"fsm", "l.fsm((s,x)->{state:s.state+x}).map(s->s.state)", func(in c07In) (value.Value, bool) {
		var o []value.Int
		var st value.Int
		for _, x := range in.l {
			st += x
			o = append(o, st)
		}
		return ints(o...), true
	}, 0},
	{"min", "[l.min(), min(a,l[0])]", func(in c07In) (value.Value, bool) {
		if len(in.l) == 0 {
			return nil, false
		}
		mn := in.l[0]
		for _, x := range in.l[1:] {
			if x < mn {
				mn = x
			}
		}
		m2 := in.a
		if in.l[0] < m2 {
			m2 = in.l[0]
		}
		return ints(mn, m2), true
	}, 1},
	{"max", "[l.max(), max(a,l[0],3)]", func(in c07In) (value.Value, bool) {
		if len(in.l) == 0 {
			return nil, false
		}
		mx := in.l[0]
		for _, x := range in.l[1:] {
			if x > mx {
				mx = x
			}
		}
		m2 := in.a
		if in.l[0] > m2 {
			m2 = in.l[0]
		}
		if 3 > m2 {
			m2 = 3
		}
		return ints(mx, m2), true
	}, 1},
	{"minMax", "let r=l.minMax(x->x*2); [r.min, r.max, r.minItem*2, r.maxItem*2]", func(in c07In) (value.Value, bool) {
		if len(in.l) == 0 {
			return nil, false
		}
		mn, mx := in.l[0]*2, in.l[0]*2
		for _, x := range in.l[1:] {
			if x*2 < mn {
				mn = x * 2
			}
			if x*2 > mx {
				mx = x * 2
			}
		}
		// minItem/maxItem are items whose key is the extreme (any of the tied ones)
		return ints(mn, mx, mn, mx), true
	}, 1},
	{"minMaxValid", "[l.minMax(x->x).valid, [].minMax(x->x).valid]", func(in c07In) (value.Value, bool) {
		return value.NewList(value.Bool(len(in.l) > 0), value.Bool(false)), true
	}, 0},
	{"mean", "l.map(x->x*2.0).mean()*l.size()", func(in c07In) (value.Value, bool) {
		// only the shape is checked here (float rounding): defined iff non-empty
		if len(in.l) == 0 {
			return nil, false
		}
		return nil, true
	}, 0},
	{"order", "l.order(x->x)", nil, 0},
	{"orderRev", "l.orderRev(x->x)", nil, 0},
	{"orderLess", "l.orderLess((p,q)->p<q)", nil, 0},
	{"orderKey", "l.order(x->0-x)", nil, 0},
	{"groupByInt", "l.groupByInt(x->x%2)", nil, 0},
	{"uniqueInt", "l.uniqueInt(x->x)", nil, 0},
	{"groupByEqual", "l.groupByEqual(x->x)", nil, 0},
	{"movingWindow", "l.movingWindow(x->x)", nil, 0},
	{"containsItem", "[a ~ l, l ~ l+[a]]", func(in c07In) (value.Value, bool) {
		has := false
		for _, x := range in.l {
			if x == in.a {
				has = true
			}
		}
		return value.NewList(value.Bool(has), value.Bool(true)), true
	}, 0},
	// numeric functions
	{"numeric", "[abs(a), sign(a), sqr(a), int(a), float(a)=a, a%3, 0-a, abs(0-a)=abs(a)]", func(in c07In) (value.Value, bool) {
		a := in.a
		ab := a
		if ab < 0 {
			ab = -ab
		}
		sg := value.Int(0)
		if a > 0 {
			sg = 1
		} else if a < 0 {
			sg = -1
		}
		return value.NewList(ab, sg, a*a, a, value.Bool(true), a%3, -a, value.Bool(true)), true
	}, 0},
	{"round", "[round(a/2), int(a/2), round(0-a/2)]", func(in c07In) (value.Value, bool) {
		a := int64(in.a)
		// round half away from zero of a/2; int truncates
		half := func(x int64) int64 {
			if x >= 0 {
				return (x + 1) / 2
			}
			return -((-x + 1) / 2)
		}
		return ints(value.Int(half(a)), value.Int(a/2), value.Int(half(-a))), true
	}, 0},
	// compositions (the receiver is observed again afterwards)
	{"comp-top-append", "[l.top(a).append(77), l, l.top(a).append(78)]", func(in c07In) (value.Value, bool) {
		k := int(in.a)
		if k > len(in.l) {
			k = len(in.l)
		}
		t := append(append([]value.Int{}, in.l[:k]...), 77)
		u := append(append([]value.Int{}, in.l[:k]...), 78)
		return value.NewList(ints(t...), ints(in.l...), ints(u...)), true
	}, 0},
	{"comp-skip-set", "[l.skip(1).set(0,77), l, l.skip(1).reverse()]", func(in c07In) (value.Value, bool) {
		if len(in.l) < 2 {
			return nil, false
		}
		t := append([]value.Int{}, in.l[1:]...)
		t[0] = 77
		var r []value.Int
		for i := len(in.l) - 1; i >= 1; i-- {
			r = append(r, in.l[i])
		}
		return value.NewList(ints(t...), ints(in.l...), ints(r...)), true
	}, 0},
	{"comp-accept-map-skip-sum", "l.accept(x->x>a).map(x->x*2).skip(1).top(2).sum()", func(in c07In) (value.Value, bool) {
		var o []value.Int
		for _, x := range in.l {
			if x > in.a {
				o = append(o, x*2)
			}
		}
		if len(o) < 2 {
			return nil, false
		}
		o = o[1:]
		if len(o) > 2 {
			o = o[:2]
		}
		var sum value.Int
		for _, x := range o {
			sum += x
		}
		return sum, true
	}, 0},
	{"comp-append-reverse-first", "[l.append(a).reverse().first(), l.append(a+1).last(), l.size()]", func(in c07In) (value.Value, bool) {
		return ints(in.a, in.a+1, value.Int(len(in.l))), true
	}, 0},
	// map methods: receiver {x:m[0], y:m[1], z:a} resp. parts of it
	{"map-isAvail", `let mp={x:m[0],y:m[1]}; [mp.isAvail("x"), mp.isAvail("q"), mp.isAvail("x","y"), mp.isAvail("q","y"), mp.isAvail("x","q"), mp.isAvail("q","r","x"), mp.isAvail("y","q","x"), mp.isAvail()]`,
		func(in c07In) (value.Value, bool) {
			return value.NewList(value.Bool(true), value.Bool(false), value.Bool(true), value.Bool(false), value.Bool(false), value.Bool(false), value.Bool(false), value.Bool(true)), true
		}, 0},
	{"map-get", `let mp={x:m[0],y:m[1]}.put("z",a); [mp.get("y"), mp.get("z"), mp.get("x"), mp.x, mp.size(), {}.size()]`, func(in c07In) (value.Value, bool) {
		return ints(in.m[1], in.a, in.m[0], in.m[0], 3, 0), true
	}, 0},
	{"map-get-missing", `{x:m[0],y:m[1]}.get("q")`, func(in c07In) (value.Value, bool) { return nil, false }, 0},
	{"map-put-existing", `{x:m[0],y:m[1]}.put("y",a).size()`, func(in c07In) (value.Value, bool) { return nil, false }, 0},
	{"map-list", `let ls={x:m[0],y:m[1],z:a}.list(); [ls.size(), ls.map(e->e.value).sum(), ls.accept(e->e.key="y").map(e->e.value).first(), ls.map(e->e.key).accept(k->k="x"|k="y"|k="z").size()]`,
		func(in c07In) (value.Value, bool) {
			return ints(3, in.m[0]+in.m[1]+in.a, in.m[1], 3), true
		}, 0},
	{"map-accept", `let r={x:m[0],y:m[1],z:a}.accept((k,v)->v>a | k="z"); [r.size(), r.isAvail("x"), r.isAvail("y"), r.z]`, func(in c07In) (value.Value, bool) {
		n := value.Int(1)
		if in.m[0] > in.a {
			n++
		}
		if in.m[1] > in.a {
			n++
		}
		return value.NewList(n, value.Bool(in.m[0] > in.a), value.Bool(in.m[1] > in.a), in.a), true
	}, 0},
	{"map-map", `let r={x:m[0],y:m[1]}.map((k,v)->if k="x" then v*2+a else v-a); [r.x, r.y, r.size()]`, func(in c07In) (value.Value, bool) {
		return ints(in.m[0]*2+in.a, in.m[1]-in.a, 2), true
	}, 0},
	{"map-replace", `let r={x:m[0],y:m[1]}.replace(o->{x:o.y+a}); [r.x, r.y, r.size()]`, func(in c07In) (value.Value, bool) {
		return ints(in.m[1]+in.a, in.m[1], 2), true
	}, 0},
	{"map-replaceMap", `{x:m[0],y:m[1]}.replaceMap(o->o.x-o.y*a)`, func(in c07In) (value.Value, bool) {
		return in.m[0] - in.m[1]*in.a, true
	}, 0},
	{"map-combine", `let r={x:m[0],y:m[1]}.combine({y:a,x:1,w:5},(p,q)->p*3-q); [r.x, r.y, r.size()]`, func(in c07In) (value.Value, bool) {
		return ints(in.m[0]*3-1, in.m[1]*3-in.a, 2), true
	}, 0},
	{"map-combine-missing", `{x:m[0],y:m[1]}.combine({x:1},(p,q)->p).size()`, func(in c07In) (value.Value, bool) { return nil, false }, 0},
	{"map-eval", `let r={x:m[0]}.put("y",m[1]).eval(); [r.x, r.y, r.size(), r.isAvail("x","y"), r.isAvail("y","q")]`, func(in c07In) (value.Value, bool) {
		return value.NewList(in.m[0], in.m[1], value.Int(2), value.Bool(true), value.Bool(false)), true
	}, 0},
	{"map-plus", `let r={x:m[0]}+{y:m[1],z:a}; [r.x, r.y, r.z, r.size()]`, func(in c07In) (value.Value, bool) {
		return ints(in.m[0], in.m[1], in.a, 3), true
	}, 0},
	{"map-plus-common-key", `({x:m[0]}+{x:m[1]}).size()`, func(in c07In) (value.Value, bool) { return nil, false }, 0},
	{"misuse-isAvail-type", `{x:1}.isAvail("x",3)`, func(in c07In) (value.Value, bool) { return nil, false }, 0},
	{"misuse-map-get-type", `{x:1}.get(3)`, func(in c07In) (value.Value, bool) { return nil, false }, 0},
	{"misuse-map-put-type", `{x:1}.put(3,4).size()`, func(in c07In) (value.Value, bool) { return nil, false }, 0},
	{"misuse-map-accept-arity", `{x:1}.accept(v->true).size()`, func(in c07In) (value.Value, bool) { return nil, false }, 0},
	{"misuse-map-accept-nonbool", `{x:1}.accept((k,v)->v).size()`, func(in c07In) (value.Value, bool) { return nil, false }, 0},
	{"misuse-map-combine-notmap", `{x:1}.combine(3,(p,q)->p).size()`, func(in c07In) (value.Value, bool) { return nil, false }, 0},
	// misuse yields errors
	{"misuse-reduce-arity", "l.reduce(x->x)", func(in c07In) (value.Value, bool) { return nil, false }, 0},
	{"misuse-map-notfunc", "l.map(3)", func(in c07In) (value.Value, bool) { return nil, false }, 0},
	{"misuse-accept-nonbool", "l.accept(x->x).size()", func(in c07In) (value.Value, bool) {
		if len(in.l) == 0 {
			return value.Int(0), true
		}
		return nil, false
	}, 0},
	{"misuse-top-type", "l.top(\"x\")", func(in c07In) (value.Value, bool) { return nil, false }, 0},
	{"misuse-unknown-method", "l.nosuch()", func(in c07In) (value.Value, bool) { return nil, false }, 0},
	{"misuse-cross-notlist", "l.cross(3,(p,q)->p).size()", func(in c07In) (value.Value, bool) { return nil, false }, 0},
	{"misuse-min-empty", "[min(), 1][1]", func(in c07In) (value.Value, bool) { return nil, false }, 0},
	{"misuse-indexWhere-nonbool", "l.indexWhere(x->x)", func(in c07In) (value.Value, bool) {
		if len(in.l) == 0 {
			return value.Int(-1), true
		}
		return nil, false
	}, 0},
}

// strings: concrete receivers from a unicode pool, symbolic numeric arguments
var c07Strings = []string{"", "a", "abc", "häß€", "a,b,,c", " x y ", "ABC abc"}

func c07Jobs(tier string, seed int64) []string {
	var jobs []string
	maxN := 3
	if tier == "thorough" {
		maxN = 5
	}
	for _, c := range c07Cases {
		for n := c.minN; n <= maxN; n++ {
			if n > c.minN && (strings.HasPrefix(c.name, "map-") || strings.HasPrefix(c.name, "misuse-map") || c.name == "misuse-isAvail-type") {
				break // the receiver list is not used by the map cases
			}
			if tier != "thorough" && n == 2 && c.ref != nil && !strings.HasPrefix(c.name, "combine") {
				continue
			}
			if c.name == "movingWindow" && n > 3 {
				continue // float keys of symbolic ints: FP queries
			}
			jobs = append(jobs, c.name+":"+strconv.Itoa(n))
		}
	}
	for i := range c07Strings {
		jobs = append(jobs, "str:"+strconv.Itoa(i))
	}
	return jobs
}

func c07Run(job string) {
	name, ns := split2(job)
	n, _ := strconv.Atoi(ns)
	fg := value.New()
	if name == "str" {
		c07String(fg, c07Strings[n])
		sym.Reach("end")
		return
	}
	var cs *c07Case
	for i := range c07Cases {
		if c07Cases[i].name == name {
			cs = &c07Cases[i]
		}
	}
	in := c07In{}
	for i := 0; i < n; i++ {
		if name == "movingWindow" {
			// the keys are compared as float64: enumerated from a pool instead of symbolic (FP queries
			// on converted 64-bit ints do not finish)
			pool := []value.Int{-3, -1, 0, 1, 2, 4, 5}
			in.l = append(in.l, pool[sym.Choice("l"+strconv.Itoa(i), len(pool))])
			continue
		}
		in.l = append(in.l, value.Int(sym.Int64("l"+strconv.Itoa(i))))
	}
	in.m = []value.Int{value.Int(sym.Int64("m0")), value.Int(sym.Int64("m1"))}
	a := sym.Int64("a")
	sym.Assume(sym.And(a >= -2, a <= 6))
	if name == "top" || name == "comp-top-append" {
		sym.Assume(a >= 0)
	}
	in.a = value.Int(a)
	if name == "orderKey" {
		// the key 0-x must not wrap
		for _, x := range in.l {
			sym.Assume(sym.And(int64(x) > -(1<<62), int64(x) < (1<<62)))
		}
	}
	f := mustGen(fg, cs.prog, "l", "m", "a")
	got := eval(f, ints(in.l...), ints(in.m...), in.a)
	sym.Assert(!got.panicked, "no-panic")
	if cs.ref != nil {
		wv, wok := cs.ref(in)
		sym.Assert(got.ok() == wok, "defined-exactly-when-the-model-is")
		if got.ok() && wok && wv != nil {
			sym.Assert(valEq(got.v, wv), "result-equals-eager-reference")
		}
		sym.Reach("end")
		return
	}
	// results specified by a relation rather than a function
	sym.Assert(got.ok(), "defined")
	if !got.ok() {
		return
	}
	switch name {
	case "order", "orderRev", "orderLess", "orderKey":
		out, ok := c07Ints(got.v)
		sym.Assert(ok && len(out) == len(in.l), "sorted-size")
		if !ok || len(out) != len(in.l) {
			return
		}
		for i := 0; i+1 < len(out); i++ {
			if name == "orderRev" || name == "orderKey" {
				sym.Assert(out[i] >= out[i+1], "sorted-descending")
			} else {
				sym.Assert(out[i] <= out[i+1], "sorted-ascending")
			}
		}
		c07Permutation(in.l, out)
	case "uniqueInt":
		out, ok := c07Ints(got.v)
		sym.Assert(ok, "unique-is-int-list")
		if !ok {
			return
		}
		// every input occurs, every output is an input, outputs pairwise distinct
		for _, x := range in.l {
			found := false
			for _, y := range out {
				found = sym.Or(found, x == y)
			}
			sym.Assert(found, "unique-covers-input")
		}
		for i, y := range out {
			isIn := false
			for _, x := range in.l {
				isIn = sym.Or(isIn, x == y)
			}
			sym.Assert(isIn, "unique-subset-of-input")
			for j := i + 1; j < len(out); j++ {
				sym.Assert(out[i] != out[j], "unique-distinct")
			}
		}
	case "groupByInt", "groupByEqual":
		l, ok := got.v.(*value.List)
		sym.Assert(ok, "groups-list")
		if !ok {
			return
		}
		groups, err := l.ToSlice(emptyStack())
		sym.Assert(err == nil, "groups-readable")
		total := 0
		for _, g := range groups {
			gm, ok := g.(value.Map)
			sym.Assert(ok, "group-is-map")
			if !ok {
				continue
			}
			kv, _ := gm.Get("key")
			vv, _ := gm.Get("values")
			members, ok := c07Ints(vv)
			sym.Assert(ok && len(members) > 0, "group-values")
			total += len(members)
			for _, x := range members {
				if name == "groupByInt" {
					sym.Assert(valEq(kv, x%2), "member-has-group-key")
				} else {
					sym.Assert(valEq(kv, x), "member-has-group-key")
				}
			}
		}
		sym.Assert(total == len(in.l), "groups-partition-the-list")
		if total == len(in.l) {
			var all []value.Int
			for _, g := range groups {
				if gm, ok := g.(value.Map); ok {
					vv, _ := gm.Get("values")
					ms, _ := c07Ints(vv)
					all = append(all, ms...)
				}
			}
			c07Permutation(in.l, all)
		}
		// group keys pairwise distinct
		for i := range groups {
			for j := i + 1; j < len(groups); j++ {
				ki, _ := groups[i].(value.Map).Get("key")
				kj, _ := groups[j].(value.Map).Get("key")
				sym.Assert(sym.Not(valEq(ki, kj)), "group-keys-distinct")
			}
		}
	case "movingWindow":
		// window i = the items from start_i to i, start advancing while the keys differ by more than 1
		wl, ok := got.v.(*value.List)
		sym.Assert(ok, "windows-list")
		if !ok {
			return
		}
		ws, err := wl.ToSlice(emptyStack())
		sym.Assert(err == nil && len(ws) == len(in.l), "one-window-per-item")
		if err != nil || len(ws) != len(in.l) {
			return
		}
		start := 0
		for i := range in.l {
			for {
				d := int64(in.l[i]) - int64(in.l[start])
				if !(d > 1 || d < -1) {
					break
				}
				start++
			}
			got, ok := c07Ints(ws[i])
			sym.Assert(ok && len(got) == i-start+1, "window-extent")
			if ok && len(got) == i-start+1 {
				for k := range got {
					sym.Assert(got[k] == in.l[start+k], "window-items")
				}
			}
		}
	}
	sym.Reach("end")
}

// refAtoi: a decimal integer is an optional sign followed by ASCII digits only, within int64.
func refAtoi(t string) (int, error) {
	neg, i := false, 0
	if len(t) > 0 && (t[0] == '+' || t[0] == '-') {
		neg, i = t[0] == '-', 1
	}
	if i == len(t) {
		return 0, errNotANumber
	}
	var n uint64
	for ; i < len(t); i++ {
		c := t[i]
		if c < '0' || c > '9' {
			return 0, errNotANumber
		}
		d := uint64(c - '0')
		if n > (1<<63)/10 || n*10+d > 1<<63 {
			return 0, errNotANumber
		}
		n = n*10 + d
	}
	if neg {
		return int(-int64(n)), nil
	}
	if n > 1<<63-1 {
		return 0, errNotANumber
	}
	return int(n), nil
}

var errNotANumber = errors.New("not a decimal integer")

func c07Ints(v value.Value) ([]value.Int, bool) {
	l, ok := v.(*value.List)
	if !ok {
		return nil, false
	}
	sl, err := l.ToSlice(emptyStack())
	if err != nil {
		return nil, false
	}
	out := make([]value.Int, len(sl))
	for i, e := range sl {
		x, ok := e.(value.Int)
		if !ok {
			return nil, false
		}
		out[i] = x
	}
	return out, true
}

// c07Permutation asserts that out is a permutation of in (multiset equality by counting).
func c07Permutation(in, out []value.Int) {
	for i := range in {
		var cin, cout int64
		for j := range in {
			cin += sym.IteInt(in[i] == in[j], 1, 0)
			cout += sym.IteInt(in[i] == out[j], 1, 0)
		}
		sym.Assert(cin == cout, "sorted-is-permutation")
	}
}

// c07String checks the string methods on a concrete receiver with symbolic positions.
func c07String(fg *value.FunctionGenerator, s string) {
	rs := []rune(s)
	p, n := sym.Int64("p"), sym.Int64("n")
	sym.Assume(sym.And(p >= 0, p <= 6))
	sym.Assume(sym.And(n >= -1, n <= 6))
	str := value.String(s)
	// cut(pos,len): substring of runes starting at pos with length len; negative/zero len = rest
	got := eval(mustGen(fg, "s.cut(p,n)", "s", "p", "n"), str, value.Int(p), value.Int(n))
	sym.Assert(got.ok(), "cut-defined")
	if got.ok() {
		// p and n are decided on this path by the implementation's loops; recompute concretely
		want := ""
		pi, ni := int(p), int(n)
		if pi < len(rs) {
			end := len(rs)
			if ni > 0 && pi+ni < end {
				end = pi + ni
			}
			want = string(rs[pi:end])
		}
		sym.Assert(valEq(got.v, value.String(want)), "cut-is-rune-substring")
	}
	chk := func(prog string, want value.Value, id string) {
		r := eval(mustGen(fg, prog, "s"), str)
		sym.Assert(r.ok(), id+"-defined")
		if r.ok() {
			sym.Assert(valEq(r.v, want), id)
		}
	}
	chk("s.len()", value.Int(len(s)), "len-is-byte-length")
	chk("s.toUpper()", value.String(strings.ToUpper(s)), "toUpper")
	chk("s.toLower()", value.String(strings.ToLower(s)), "toLower")
	chk("s.trim()", value.String(strings.TrimSpace(s)), "trim")
	chk(`s.contains("b")`, value.Bool(strings.Contains(s, "b")), "contains")
	chk(`s.indexOf("b")`, value.Int(strings.Index(s, "b")), "indexOf")
	chk(`s.replace("b","xy")`, value.String(strings.ReplaceAll(s, "b", "xy")), "replace-all")
	chk(`"b" ~ s`, value.Bool(strings.Contains(s, "b")), "substring-membership")
	parts := strings.Split(s, ",")
	var pv []value.Value
	for _, x := range parts {
		pv = append(pv, value.String(x))
	}
	chk(`s.split(",")`, value.NewList(pv...), "split")
	chk(`s+s`, value.String(s+s), "concat")
	chk(`s=s & !(s<s) & s<=s`, value.Bool(true), "string-compare")
	// parse
	for _, t := range []string{"12", "-7", "1.5", "x", "", "1e3", "010", "0008", "0x10", "0b101", "0o7", "1_000", "+7", " 7", "7 ", "-0", "--1", "9223372036854775807",
		"9223372036854775808", "-9223372036854775808", "\u0663", "0.0", "inf", "NaN", "0x1p4", "1_0.5", ".5", "5.", "1e", "1e400", "-", "+"} {
		ri := eval(mustGen(fg, "t.toInt()", "t"), value.String(t))
		iv, ierr := refAtoi(t)
		sym.Assert(ri.ok() == (ierr == nil), "toInt-defined:"+t)
		if ri.ok() && ierr == nil {
			sym.Assert(valEq(ri.v, value.Int(iv)), "toInt:"+t)
		}
		rf := eval(mustGen(fg, "t.toFloat()", "t"), value.String(t))
		fv, ferr := strconv.ParseFloat(t, 64)
		sym.Assert(rf.ok() == (ferr == nil), "toFloat-defined:"+t)
		if rf.ok() && ferr == nil {
			sym.Assert(valEq(rf.v, value.Float(fv)), "toFloat:"+t)
		}
	}
	// misuse
	for _, prog := range []string{"s.cut(\"a\",1)", "s.contains(1)", "s.split(1)", "s.replace(1,2)", "s.nosuch()", "s.indexOf([1])"} {
		r := eval(mustGen(fg, prog, "s"), str)
		sym.Assert(!r.ok() && !r.panicked, "misuse-is-error:"+prog)
	}
}
