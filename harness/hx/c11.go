package hx

import (
	"sync"

	"github.com/hneemann/parser2/value"
	"verifharness/sym"
)

// C11 — one generated function may be evaluated concurrently from many goroutines.
//
// Job = program over a, b.  The function is generated once; then two
// goroutines evaluate it with two independent SYMBOLIC argument tuples.  Two
// monitors of the engine decide the property, both schedule independent:
//
//	frozen heap   everything reachable from the generator and the generated function at the end
//	              of Generate is frozen; any store into it during an evaluation is a write to state
//	              shared by all concurrent evaluations
//	happens-before vector clocks over the engine's goroutines/channels/WaitGroups: two unsynchronised
//	              accesses to one cell from the two evaluations, one of them a write
//
// Outcomes must equal the isolated evaluations (reference evaluator).  Natively the
// same harness runs under the Go race detector.

func init() {
	register(&Harness{Name: "c11", Property: "C11", Jobs: c11Jobs, Run: c11Run})
}

var c11Progs = []string{
	`a*2+b`,
	// constant maps with spare capacity (accept that rejected an entry, put chains) extended per evaluation
	`let base={p:1,q:2,r:3}.accept((k,v)->v<3); (base+{id:a}).id+(base+{z:b}).z+base.size()`,
	`let base={p:1}.put("q",2).put("r",3); base.put("id",a).id+(base+{z:b}).z+base.replace(o->{p:a}).p`,
	// failing lookups: the error paths of the generator are shared state, too
	`[try a.nosuch() catch 1, try "s".nosuch() catch 2, try [a].nosuch() catch 3, try {k:a}.nosuch() catch b, try {k:1}.j catch a]`,
	`try [1,2].map(x->x.k).sum() catch e->a+b`,
	// run-time access to lazy lists whose producers call closures on the stack they are handed
	`numbers(5).combine((p,q)->p+q*a)[b%4]+numbers(4).number((i,x)->x*a+i)[a%4]`,
	`numbers(5).map(x->x+a).iir(x->x,(x,l)->l+x)[a%5]+numbers(5).combine3((p,q,r)->p+q+r+b)[1]`,
	// constant-folded lazy concatenations and stages, iterated at run time without being materialised
	`let l=[1,2,3].number((i,x)->x+i)+[4,5].combine((p,q)->p+q); l.mapReduce(a,(s,x)->s*2+x)+b`,
	`let l=[1,2,3].combine((p,q)->p*q)+numbers(3).iir(x->x,(x,o)->o+x); l.reduce((p,q)->p+q*a)+l.map(x->x+b).sum()`,
	`let l=numbers(4).number((i,x)->i*x); l.visit(a,(v,x)->v+x)+l.present(x->x=b)`,
	`let l=numbers(5).map(x->x*2); l[a%5]+b`,
	`let l=numbers(5).map(x->x*2); l.append(a).size()+l[b%5]`,
	`let l=numbers(4).map(x->x+1); [a] ~ l`,
	`let l=numbers(4).map(x->x+1); l=[a,b,3,4]`,
	`let l=numbers(4).map(x->x+1); l.map(x->x*a).sum()+l.size()`,
	`let c=[1,2].append(3); c.append(a).size()+c.append(b)[3]`,
	`let c=[3,1,2].order(x->x); c[a%3]+c.reverse()[b%3]`,
	`let m={k:1,j:2}; m.put("z",a).z+m.replace(o->{k:b}).k+m.size()`,
	`let m={k:1}.put("j",2).eval(); m.j+a+m.map((k,v)->v+b).k`,
	`let f=x->x*3; f(a)+[1,2].map(f).sum()+b`,
	`func fac(n) if n<=1 then 1 else n*fac(n-1); fac(a%5)+b`,
	`let s="abc"; s.cut(a%3,1).len()+b`,
	`(if a<b then [a,b] else {k:a}).size()`,
	`switch a%3 case 0: b case 1: [b].size() default {k:b}.k`,
	`try [1,2][a%4] catch b`,
	`[a,b,3].order(x->x)[0]+[a,b].minMax(x->x).max`,
	`let g=x->y->x*y+a; g(b)(2)`,
	`numbers(3).map(i->i*a).accept(x->x>=b).size()`,
	`"s"+(a%3)+[1,2].size()`,
	`let l=numbers(3).map(x->x*2); l.top(2).size()+l.skip(1).first()+a`,
	`let c=[1,2,2,3]; c.groupByInt(x->x%2).size()+c.uniqueInt(x->x).size()+a`,
}

func c11Jobs(tier string, seed int64) []string {
	var jobs []string
	for _, p := range c11Progs {
		jobs = append(jobs, "@noleak=1@"+p)
	}
	return jobs
}

func c11Run(prog string) {
	fg := value.New()
	xa, xb := sym.Int64("xa"), sym.Int64("xb")
	ya, yb := sym.Int64("ya"), sym.Int64("yb")
	sym.Assume(sym.And(xa >= 0, xa <= 7))
	sym.Assume(sym.And(ya >= 0, ya <= 7))
	x := []value.Value{value.Int(xa), value.Int(xb)}
	y := []value.Value{value.Int(ya), value.Int(yb)}
	names := []string{"a", "b"}
	ast, perr := vparse(prog)
	if perr != nil {
		sym.Assert(false, "template-parses")
		return
	}
	f := mustGen(fg, prog, names...)
	// isolated outcomes from the reference evaluator (own generator)
	ref := newRefEval(value.New())
	wxv, wxe := ref.Run(ast, names, x)
	wyv, wye := ref.Run(ast, names, y)

	sym.Freeze(f, fg)
	sym.Mark("race-on")
	var r1, r2 res
	var wg sync.WaitGroup
	wg.Add(1)
	go func() {
		defer wg.Done()
		r1 = eval(f, x...)
		if l, ok := r1.v.(*value.List); ok && r1.ok() {
			l.ToSlice(emptyStack())
		}
	}()
	r2 = eval(f, y...)
	if l, ok := r2.v.(*value.List); ok && r2.ok() {
		l.ToSlice(emptyStack())
	}
	wg.Wait()
	sym.Mark("race-off")
	sym.Mark("unfreeze")
	sym.Assert(!r1.panicked && !r2.panicked, "no-panic")
	sym.Assert(sameOutcome(r1, res{v: wxv, err: wxe}), "concurrent-evaluation-of-x-equals-isolated")
	sym.Assert(sameOutcome(r2, res{v: wyv, err: wye}), "concurrent-evaluation-of-y-equals-isolated")
	sym.Reach("end")
}
