package hx

import (
	"github.com/hneemann/parser2/value"
	"verifharness/sym"
)

// selftest evaluates one expression of the repository's own test tables; the
// engine's concrete interpretation and the native build must print the same
// outcome (translator validation, DESIGN §5.4).
func init() {
	register(&Harness{Name: "selftest", Property: "C00",
		Jobs: func(tier string, seed int64) []string { return nil },
		Run:  selftest})
}

func selftest(exp string) { sym.Note("OUT " + SelftestOutcome(exp)) }

func SelftestOutcome(exp string) string {
	fg := value.New()
	f, _, err := fg.Generate(exp)
	if err != nil {
		return "GENERR"
	}
	r, err := f.Eval()
	return Outcome(r, err)
}
