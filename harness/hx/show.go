package hx

import (
	"math"
	"sort"
	"strconv"
	"strings"

	"github.com/hneemann/parser2/funcGen"
	"github.com/hneemann/parser2/value"
)

func emptyStack() funcGen.Stack[value.Value] { return funcGen.NewEmptyStack[value.Value]() }

// Show renders a concrete value canonically: kind and content, lists by
// element sequence (forced), maps by sorted key set.  Floats by bit pattern
// (all NaNs alike).  Used where outcomes are compared as text.
func Show(v value.Value) string {
	var sb strings.Builder
	show(&sb, v, 0)
	return sb.String()
}

func show(sb *strings.Builder, v value.Value, depth int) {
	if depth > 12 {
		sb.WriteString("<deep>")
		return
	}
	switch x := v.(type) {
	case nil:
		sb.WriteString("<nil>")
	case value.Int:
		sb.WriteString("I" + strconv.FormatInt(int64(x), 10))
	case value.Float:
		f := float64(x)
		if f != f {
			sb.WriteString("Fnan")
		} else {
			sb.WriteString("F" + strconv.FormatFloat(f, 'g', -1, 64))
			if f == 0 && math.Signbit(f) {
				sb.WriteString("(-0)")
			}
		}
	case value.Bool:
		if x {
			sb.WriteString("Btrue")
		} else {
			sb.WriteString("Bfalse")
		}
	case value.String:
		sb.WriteString("S" + strconv.Quote(string(x)))
	case *value.List:
		sl, err := x.ToSlice(emptyStack())
		if err != nil {
			sb.WriteString("L<err>")
			return
		}
		sb.WriteString("L[")
		for i, e := range sl {
			if i > 0 {
				sb.WriteString(",")
			}
			show(sb, e, depth+1)
		}
		sb.WriteString("]")
	case value.Map:
		type kv struct {
			k string
			v value.Value
		}
		var es []kv
		x.Iter(func(k string, v value.Value) bool {
			es = append(es, kv{k, v})
			return true
		})
		sort.Slice(es, func(i, j int) bool { return es[i].k < es[j].k })
		sb.WriteString("M{")
		for i, e := range es {
			if i > 0 {
				sb.WriteString(",")
			}
			sb.WriteString(strconv.Quote(e.k) + ":")
			show(sb, e.v, depth+1)
		}
		sb.WriteString("}")
	case value.Closure:
		sb.WriteString("C" + strconv.Itoa(x.Args))
	default:
		s, err := v.ToString(emptyStack())
		if err != nil {
			sb.WriteString("?<err>")
		} else {
			sb.WriteString("?" + s)
		}
	}
}

// Outcome renders (value, error) as a comparable string: errors are all alike.
func Outcome(v value.Value, err error) string {
	if err != nil {
		return "ERR"
	}
	return Show(v)
}
