package hx

import (
	"github.com/hneemann/parser2/value"
	"verifharness/sym"
)

// valEq is deep equality of two outcomes' values: numbers by kind and value
// (all NaNs alike), strings, bools, lists by element sequence (forced), maps
// by key/value set, closures by arity.  Payloads may be symbolic: the result
// is a (possibly symbolic) bool.
func valEq(a, b value.Value) bool { return valEqD(a, b, 0) }

func valEqD(a, b value.Value, depth int) bool {
	if depth > 10 {
		return false
	}
	if a == nil || b == nil {
		return a == nil && b == nil
	}
	switch x := a.(type) {
	case value.Int:
		y, ok := b.(value.Int)
		if !ok {
			return false
		}
		return x == y
	case value.Float:
		y, ok := b.(value.Float)
		if !ok {
			return false
		}
		fx, fy := float64(x), float64(y)
		return sym.Or(fx == fy, sym.And(fx != fx, fy != fy))
	case value.Bool:
		y, ok := b.(value.Bool)
		if !ok {
			return false
		}
		return sym.Iff(bool(x), bool(y))
	case value.String:
		y, ok := b.(value.String)
		if !ok {
			return false
		}
		return x == y
	case *value.List:
		y, ok := b.(*value.List)
		if !ok {
			return false
		}
		xs, e1 := x.ToSlice(emptyStack())
		ys, e2 := y.ToSlice(emptyStack())
		if e1 != nil || e2 != nil {
			return e1 != nil && e2 != nil
		}
		if len(xs) != len(ys) {
			return false
		}
		eq := true
		for i := range xs {
			eq = sym.And(eq, valEqD(xs[i], ys[i], depth+1))
		}
		return eq
	case value.Map:
		y, ok := b.(value.Map)
		if !ok {
			return false
		}
		var keys []string
		x.Iter(func(k string, v value.Value) bool { keys = append(keys, k); return true })
		n := 0
		y.Iter(func(k string, v value.Value) bool { n++; return true })
		if n != len(keys) {
			return false
		}
		eq := true
		for _, k := range keys {
			xv, _ := x.Get(k)
			yv, ok := y.Get(k)
			if !ok {
				return false
			}
			eq = sym.And(eq, valEqD(xv, yv, depth+1))
		}
		return eq
	case value.Closure:
		y, ok := b.(value.Closure)
		if !ok {
			return false
		}
		return x.Args == y.Args
	}
	return Show(a) == Show(b)
}

// sameOutcome: error in both, or deep-equal values.
func sameOutcome(a, b res) bool {
	if a.ok() != b.ok() {
		return false
	}
	if !a.ok() {
		return true
	}
	return valEq(a.v, b.v)
}
