package hx

import (
	"strconv"
	"strings"

	"github.com/hneemann/parser2"
	"verifharness/sym"
)

// C03 — operator priority, associativity and grouping for any operator table.
//
// Jobs:
//	free:<table>:<L>        L symbolic bytes over the table's alphabet ∪ {a b 1 ( ) [ ] . , blank}
//	skel:<table>:<n>        n operands with symbolic operator/prefix choices and parenthesisations
//	mal:<table>:<expr>      a valid expression with one token deleted/duplicated, or truncated
//
// table = index into c03Tables.

func init() {
	register(&Harness{Name: "c03", Property: "C03", Jobs: c03Jobs, Run: c03Run})
}

type c03Table struct {
	ops     []string
	unary   []string
	aliases map[string]string
}

var c03Tables = []c03Table{
	{ops: []string{"+", "*"}, unary: []string{"-"}},
	{ops: []string{"+", "-", "*"}, unary: []string{"-"}},                                  // prefix = middle binary
	{ops: []string{"-", "+", "*"}, unary: []string{"-", "!"}},                             // prefix = lowest binary, plus a pure prefix
	{ops: []string{"<", "<=", "<<", "+"}, unary: []string{"!"}},                           // spellings that are prefixes of one another
	{ops: []string{"|", "&", "=", "<", "+", "-", "*", "/", "^"}, unary: []string{"-", "!"}}, // the value language's shape
	{ops: []string{"+", "*"}, unary: []string{"-"}, aliases: map[string]string{"plus": "+", "mal": "*"}},
	{ops: []string{"+", "---", "-"}, unary: []string{}},                                   // the repository's own greedy-walk example
	{ops: []string{"+", "-"}, unary: []string{"-"}},                                       // prefix = HIGHEST binary
	{ops: []string{"a+", "+"}, unary: nil},                                                // odd but legal spellings are excluded: letters lex as identifiers (kept for malformed inputs)
	{ops: []string{"+", "-", "*", "/"}, unary: []string{"-", "+", "!"}},                   // 9: TWO prefix operators that are also binary (lowest and second level)
	{ops: []string{"∪", "≤", "·", "+"}, unary: []string{"¬", "·"}},                        // 10: operators spelled with non-ASCII runes (skeleton jobs only)
}

func c03Jobs(tier string, seed int64) []string {
	var jobs []string
	add := func(j string) { jobs = append(jobs, "@noleak=1,steps=3000000@"+j) }
	for ti := 0; ti < 8; ti++ {
		L := 2
		if ti == 0 || ti == 1 || ti == 3 || ti == 7 {
			L = 3
		}
		if tier == "thorough" {
			L = 3
			if ti == 0 || ti == 7 {
				L = 4 // ~85k paths per table
			}
		}
		for l := 1; l <= L; l++ {
			add("free:" + strconv.Itoa(ti) + ":" + strconv.Itoa(l))
		}
		if ti == 4 && tier != "thorough" {
			add("skel:4:2")
			continue
		}
		add("skel:" + strconv.Itoa(ti) + ":3")
		if tier == "thorough" && ti != 4 {
			add("skel:" + strconv.Itoa(ti) + ":4")
		}
	}
	// table 9: free inputs and skeletons; table 10: skeletons only (its bytes are no alphabet for free inputs)
	for l := 1; l <= 2; l++ {
		add("free:9:" + strconv.Itoa(l))
	}
	if tier == "thorough" {
		add("free:9:3")
		add("skel:9:4")
		add("skel:10:4")
	}
	add("skel:9:3")
	add("skel:10:3")
	for _, e := range []string{"a+b*(1-a)", "-a*b+f(a,b)[1].x", "(a,b)->a*b+1", "[a,b+1,-a].m(b)(1)"} {
		add("mal:4:" + e)
	}
	return jobs
}

func (t *c03Table) parser() *parser2.Parser[int] {
	p := parser2.NewParser[int]().
		SetNumberParser(parser2.NumberParserFunc[int](func(n string) (int, error) { return strconv.Atoi(n) })).
		SetStringConverter(parser2.StringConverterFunc[int](func(s string) int { return len(s) }))
	p.Op(t.ops...)
	p.Unary(t.unary...)
	if t.aliases != nil {
		p.TextOperator(t.aliases)
	}
	return p
}

func c03Idents() parser2.Identifiers[int] {
	var id parser2.Identifiers[int]
	return id.Add("a").Add("b").Add("f")
}

// alphabet of the free-input family for a table
func (t *c03Table) alphabet() []byte {
	set := map[byte]bool{}
	for _, c := range []byte("ab1()[]., ") {
		set[c] = true
	}
	for _, o := range append(append([]string{}, t.ops...), t.unary...) {
		for i := 0; i < len(o); i++ {
			set[o[i]] = true
		}
	}
	set['>'] = true // "->" is always an operator of the tokenizer
	set['='] = true
	var out []byte
	for c := 0; c < 128; c++ {
		if set[byte(c)] {
			out = append(out, byte(c))
		}
	}
	return out
}

func c03Check(t *c03Table, src []byte) {
	var ast parser2.AST
	var err error
	panicked := false
	func() {
		defer func() {
			if rec := recover(); rec != nil {
				panicked = true
			}
		}()
		ast, err = t.parser().Parse(string(src), c03Idents())
	}()
	sym.Assert(!panicked, "no-panic")
	if panicked {
		return
	}
	ref, ok := refParse(&rtable{ops: t.ops, unary: t.unary, aliases: t.aliases, idents: []string{"a", "b", "f"}}, src)
	if ok {
		sym.Assert(err == nil, "valid-input-accepted")
		if err == nil {
			sym.Assert(astEq(ast, ref), "ast-groups-as-declared")
		}
	} else {
		sym.Assert(err != nil, "malformed-input-rejected")
	}
}

func c03Run(job string) {
	parts := strings.SplitN(job, ":", 3)
	ti, _ := strconv.Atoi(parts[1])
	t := &c03Tables[ti]
	switch parts[0] {
	case "free":
		L, _ := strconv.Atoi(parts[2])
		alpha := t.alphabet()
		src := make([]byte, L)
		for i := range src {
			b := sym.Byte("b" + strconv.Itoa(i))
			in := false
			for _, c := range alpha {
				in = sym.Or(in, b == c)
			}
			sym.Assume(in)
			src[i] = b
		}
		c03Check(t, src)
	case "skel":
		n, _ := strconv.Atoi(parts[2])
		operands := []string{"a", "b", "1", "a", "b"}
		// operator slots and prefix slots are symbolic choices over the table
		var toks []string
		for i := 0; i < n; i++ {
			if len(t.unary) > 0 {
				u := sym.Choice("u"+strconv.Itoa(i), len(t.unary)+1)
				if u > 0 {
					toks = append(toks, t.unary[u-1])
				}
			}
			toks = append(toks, operands[i])
			if i+1 < n {
				o := sym.Choice("o"+strconv.Itoa(i), len(t.ops))
				toks = append(toks, t.ops[o])
			}
		}
		// parenthesisation: none, around a pair of neighbouring operands, or everything
		style := sym.Choice("paren", n+1)
		var sb strings.Builder
		opnd := 0
		for _, tk := range toks {
			isOperand := tk == "a" || tk == "b" || tk == "1"
			if isOperand {
				if style >= 1 && style < n && opnd == style-1 {
					// open before this operand's prefix is not tracked; open here
					sb.WriteString("(")
				}
				sb.WriteString(tk)
				if style >= 1 && style < n && opnd == style {
					sb.WriteString(")")
				}
				opnd++
			} else {
				sb.WriteString(" " + tk + " ")
			}
		}
		src := sb.String()
		if style == n {
			src = "(" + src + ")"
		}
		c03Check(t, []byte(src))
	case "mal":
		expr := parts[2]
		// tokens of the expression (single characters are enough here: all tokens of
		// these programs are one byte long except identifiers, which are one letter)
		bs := []byte(expr)
		mode := sym.Choice("mode", 3)
		pos := sym.Choice("pos", len(bs))
		var src []byte
		switch mode {
		case 0: // delete one byte
			src = append(append([]byte{}, bs[:pos]...), bs[pos+1:]...)
		case 1: // duplicate one byte
			src = append(append(append([]byte{}, bs[:pos+1]...), bs[pos]), bs[pos+1:]...)
		default: // truncate
			src = bs[:pos]
		}
		c03Check(t, src)
	default:
		panic("c03: unknown job " + job)
	}
	sym.Reach("end")
}
