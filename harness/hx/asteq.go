package hx

import (
	"github.com/hneemann/parser2"
	"verifharness/sym"
)

// astEq compares an AST of the implementation (V = int) with a reference tree.
// Strings and numbers may be symbolic: the result is a (possibly symbolic) bool.
func astEq(a parser2.AST, r *rnode) bool {
	if r == nil || a == nil {
		return false
	}
	switch n := a.(type) {
	case *parser2.Operate:
		if r.kind != 'o' || len(r.kids) != 2 {
			return false
		}
		return sym.And(n.Operator == r.op, sym.And(astEq(n.A, r.kids[0]), astEq(n.B, r.kids[1])))
	case *parser2.Unary:
		if r.kind != 'u' {
			return false
		}
		return sym.And(n.Operator == r.op, astEq(n.Value, r.kids[0]))
	case *parser2.Ident:
		if r.kind != 'i' {
			return false
		}
		return n.Name == r.name
	case *parser2.Const[int]:
		if r.kind != 'n' {
			return false
		}
		return n.Value == r.num
	case *parser2.FunctionCall:
		if r.kind != 'c' || len(r.kids) != len(n.Args)+1 {
			return false
		}
		eq := astEq(n.Func, r.kids[0])
		for i := range n.Args {
			eq = sym.And(eq, astEq(n.Args[i], r.kids[i+1]))
		}
		return eq
	case *parser2.MethodCall:
		if r.kind != 'm' || len(r.kids) != len(n.Args)+1 {
			return false
		}
		eq := sym.And(n.Name == r.name, astEq(n.Value, r.kids[0]))
		for i := range n.Args {
			eq = sym.And(eq, astEq(n.Args[i], r.kids[i+1]))
		}
		return eq
	case *parser2.MapAccess:
		if r.kind != 'a' {
			return false
		}
		return sym.And(n.Key == r.name, astEq(n.MapValue, r.kids[0]))
	case *parser2.ListAccess:
		if r.kind != 'x' {
			return false
		}
		return sym.And(astEq(n.List, r.kids[0]), astEq(n.Index, r.kids[1]))
	case *parser2.ClosureLiteral:
		if r.kind != 'f' || len(n.Names) != len(r.args) {
			return false
		}
		eq := astEq(n.Func, r.kids[0])
		for i := range n.Names {
			eq = sym.And(eq, n.Names[i] == r.args[i])
		}
		return eq
	case *parser2.ListLiteral:
		if r.kind != 'l' || len(n.List) != len(r.kids) {
			return false
		}
		eq := true
		for i := range n.List {
			eq = sym.And(eq, astEq(n.List[i], r.kids[i]))
		}
		return eq
	}
	return false
}
