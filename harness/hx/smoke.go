package hx

import (
	"fmt"

	"github.com/hneemann/parser2/value"
	"verifharness/sym"
)

func init() {
	register(&Harness{Name: "smoke", Property: "C00",
		Jobs: func(tier string, seed int64) []string { return []string{"conc", "le"} },
		Run:  smoke})
}

func smoke(job string) {
	fg := value.New()
	switch job {
	case "conc":
		f, _, err := fg.Generate("let f=x->y->x+y; f(a)(b)+[3,1,2].order(x->x).size()", "a", "b")
		if err != nil {
			panic(err)
		}
		r, err := f.Eval(value.Int(3), value.Int(4))
		if err != nil {
			panic(err)
		}
		sym.Assert(r.(value.Int) == 10, "conc")
		fmt.Println("smoke result", r)
	case "le":
		a := sym.Int64("a")
		b := sym.Int64("b")
		f1, _, err := fg.Generate("a<=b", "a", "b")
		if err != nil {
			panic(err)
		}
		f2, _, err := fg.Generate("a<b | a=b", "a", "b")
		if err != nil {
			panic(err)
		}
		r1, e1 := f1.Eval(value.Int(a), value.Int(b))
		r2, e2 := f2.Eval(value.Int(a), value.Int(b))
		sym.Assert(e1 == nil && e2 == nil, "noerr")
		sym.Assert(r1.(value.Bool) == r2.(value.Bool), "le-law")
		sym.Reach("end")
	}
}
