// Command native is the natively compiled twin of the harnesses: it lists the
// jobs of a harness and replays solver models against the real build of /repo.
package main

import (
	"encoding/json"
	"fmt"
	"os"
	"strconv"

	"verifharness/hx"
	"verifharness/sym"
)

func main() {
	if len(os.Args) < 2 {
		fmt.Fprintln(os.Stderr, "usage: native list <harness> <tier> <seed> | run <harness> <job> | harnesses")
		os.Exit(2)
	}
	switch os.Args[1] {
	case "harnesses":
		for n, h := range hx.Registry {
			fmt.Println(n, h.Property)
		}
	case "list":
		h := hx.Registry[os.Args[2]]
		if h == nil {
			fmt.Fprintln(os.Stderr, "unknown harness")
			os.Exit(2)
		}
		seed, _ := strconv.ParseInt(os.Args[4], 10, 64)
		json.NewEncoder(os.Stdout).Encode(h.Jobs(os.Args[3], seed))
	case "run":
		hx.NativeRun(os.Args[2], os.Args[3])
	case "selftest":
		// batch mode: a JSON list of expressions in, a JSON list of outcomes out
		b, err := os.ReadFile(os.Args[2])
		if err != nil {
			panic(err)
		}
		var exps []string
		if err := json.Unmarshal(b, &exps); err != nil {
			panic(err)
		}
		outs := make([]string, len(exps))
		for i, e := range exps {
			outs[i] = hx.SelftestOutcome(e)
		}
		json.NewEncoder(os.Stdout).Encode(outs)
	case "replay":
		r := sym.Current()
		hx.NativeRun(r.Harness, r.Job)
	}
}
