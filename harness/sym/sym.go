// Package sym is the harness API for symbolic inputs and obligations.
//
// It has two implementations: under the symbolic engine (symgo) every call of
// a function of this package is intercepted by name and never reaches the Go
// bodies below; compiled natively the bodies read the concrete input values
// of a replay file (env VERIF_REPLAY) so that a solver model can be re-run
// against the real build of /repo.
package sym

import (
	"encoding/json"
	"fmt"
	"math"
	"os"
	"strconv"
	"time"
)

// Replay is the on-disk form of a counterexample (or reachability witness).
type Replay struct {
	Property string            `json:"property"`
	Harness  string            `json:"harness"`
	Job      string            `json:"job"`
	Inputs   map[string]string `json:"inputs"`  // name -> decimal / hex-float / bool text
	Expect   string            `json:"expect"`  // assert:<id> | panic | leak | reach:<id> | ...
	What     string            `json:"what"`
	Extra    map[string]string `json:"extra,omitempty"`
}

var (
	loaded  bool
	replay  Replay
	Failed  []string // ids of failed assertions (native mode)
	Reached []string
	Notes   []string
)

func load() {
	if loaded {
		return
	}
	loaded = true
	replay.Inputs = map[string]string{}
	if p := os.Getenv("VERIF_REPLAY"); p != "" {
		b, err := os.ReadFile(p)
		if err != nil {
			fmt.Fprintln(os.Stderr, "sym: cannot read replay:", err)
			os.Exit(4)
		}
		if err := json.Unmarshal(b, &replay); err != nil {
			fmt.Fprintln(os.Stderr, "sym: bad replay:", err)
			os.Exit(4)
		}
	}
}

// Current returns the loaded replay (native mode only).
func Current() Replay { load(); return replay }

func geti(name string, bits int) int64 {
	load()
	s, ok := replay.Inputs[name]
	if !ok {
		return 0
	}
	if v, err := strconv.ParseInt(s, 0, 64); err == nil {
		return v
	}
	if v, err := strconv.ParseUint(s, 0, 64); err == nil {
		return int64(v)
	}
	fmt.Fprintln(os.Stderr, "sym: bad int input", name, s)
	os.Exit(4)
	return 0
}

func Int64(name string) int64 { return geti(name, 64) }
func Int(name string) int     { return int(geti(name, 64)) }
func Int32(name string) int32 { return int32(geti(name, 32)) }
func Byte(name string) byte   { return byte(geti(name, 8)) }
func Rune(name string) rune   { return rune(geti(name, 32)) }
func Bool(name string) bool   { return geti(name, 1) != 0 }

// Float64 inputs are stored as the decimal of their IEEE bit pattern ("bits:<u64>").
func Float64(name string) float64 {
	load()
	s, ok := replay.Inputs[name]
	if !ok {
		return 0
	}
	if len(s) > 5 && s[:5] == "bits:" {
		u, err := strconv.ParseUint(s[5:], 0, 64)
		if err == nil {
			return math.Float64frombits(u)
		}
	}
	f, err := strconv.ParseFloat(s, 64)
	if err != nil {
		fmt.Fprintln(os.Stderr, "sym: bad float input", name, s)
		os.Exit(4)
	}
	return f
}

// Choice is a symbolic choice in [0,n) that the engine enumerates by forking.
func Choice(name string, n int) int {
	v := int(geti(name, 64))
	if v < 0 || v >= n {
		return 0
	}
	return v
}

// Assume restricts the inputs; natively a failed assumption ends the run quietly.
func Assume(c bool) {
	if !c {
		fmt.Println("ASSUME-FAILED")
		os.Exit(5)
	}
}

// Assert is an obligation: the engine asks the solver for inputs with !c.
func Assert(c bool, id string) {
	if !c {
		Failed = append(Failed, id)
		fmt.Println("ASSERT-FAILED " + id)
	}
}

// Reach marks a point that must be reachable (vacuity guard).
func Reach(id string) { Reached = append(Reached, id) }

// Note attaches a remark to the current path (shown in evidence samples).
func Note(s string) { Notes = append(Notes, s) }

// Term-level connectives: no branching under the engine.
func And(a, b bool) bool        { return a && b }
func Or(a, b bool) bool         { return a || b }
func Not(a bool) bool           { return !a }
func Implies(a, b bool) bool    { return !a || b }
func Iff(a, b bool) bool        { return a == b }
func IteInt(c bool, a, b int64) int64 {
	if c {
		return a
	}
	return b
}
func IteF(c bool, a, b float64) float64 {
	if c {
		return a
	}
	return b
}

// IsSym reports whether x holds a symbolic scalar (always false natively).
func IsSym(x any) bool { return false }

// Symbolic reports whether the code runs under the engine.
func Symbolic() bool { return false }

// Mark tells the engine's monitors that a phase starts ("freeze", "count", ...).
func Mark(what string) {
	if what == "quiesce" {
		time.Sleep(30 * time.Millisecond)
	}
}

// Freeze tells the engine's frozen-heap monitor that everything reachable from the
// given roots (and from /repo's package variables) must not be written any more.
func Freeze(roots ...any) {}

// Counter support for laziness/impurity checks: a host-side counter that is
// reset for every path under the engine.
var counters = map[string]int64{}

func CountAdd(name string, d int64) { counters[name] += d }
func CountGet(name string) int64    { return counters[name] }
