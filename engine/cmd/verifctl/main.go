// Command verifctl drives the symbolic checks of /verif.
//
//	verifctl run   <harness> [job ...]      explore jobs, print a summary (development)
//	verifctl check <property> --tier quick|thorough
//	verifctl replay <file>
//	verifctl selftest
package main

import (
	"fmt"
	"os"
)

func main() {
	if len(os.Args) < 2 {
		usage()
	}
	switch os.Args[1] {
	case "run":
		os.Exit(cmdRun(os.Args[2:]))
	case "check":
		os.Exit(cmdCheck(os.Args[2:]))
	case "replay":
		os.Exit(cmdReplay(os.Args[2:]))
	case "selftest":
		os.Exit(cmdSelftest(os.Args[2:]))
	default:
		usage()
	}
}

func usage() {
	fmt.Fprintln(os.Stderr, "usage: verifctl run|check|replay|selftest ...")
	os.Exit(2)
}
