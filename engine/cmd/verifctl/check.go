package main

import (
	"encoding/json"
	"flag"
	"fmt"
	"os"
	"os/exec"
	"path/filepath"
	"regexp"
	"sort"
	"strconv"
	"strings"
	"time"

	"symgo/interp"
)

type knownEntry struct {
	Status   string `json:"status"` // known | fixed
	Property string `json:"property"`
	Harness  string `json:"harness,omitempty"`
	JobRe    string `json:"job_regex,omitempty"`
	IDRe     string `json:"id_regex,omitempty"`
	DetailRe string `json:"detail_regex,omitempty"`
	Kind     string `json:"kind,omitempty"`
	What     string `json:"what"`
	Witness  string `json:"witness,omitempty"`
	Commit   string `json:"commit,omitempty"`
}

type knownFile struct {
	Findings []knownEntry `json:"findings"`
}

func loadKnown() []knownEntry {
	b, err := os.ReadFile(filepath.Join(verifDir, "known_findings.json"))
	if err != nil {
		return nil
	}
	var kf knownFile
	if err := json.Unmarshal(b, &kf); err != nil {
		fmt.Fprintln(os.Stderr, "known_findings.json:", err)
		os.Exit(3)
	}
	return kf.Findings
}

func (k *knownEntry) matches(prop string, f *interp.Finding) bool {
	if k.Status != "known" || k.Property != prop {
		return false
	}
	if k.Harness != "" && k.Harness != f.Harness {
		return false
	}
	if k.Kind != "" && k.Kind != f.Kind {
		return false
	}
	if k.JobRe != "" {
		if ok, _ := regexp.MatchString(k.JobRe, f.Job); !ok {
			return false
		}
	}
	if k.IDRe != "" {
		if ok, _ := regexp.MatchString(k.IDRe, f.ID); !ok {
			return false
		}
	}
	if k.DetailRe != "" {
		if ok, _ := regexp.MatchString(k.DetailRe, f.Detail); !ok {
			return false
		}
	}
	return true
}

type harnessInfo struct {
	Name     string
	Property string
}

func listHarnesses() ([]harnessInfo, error) {
	cmd := exec.Command(nativeBin(), "harnesses")
	cmd.Env = goEnv()
	out, err := cmd.Output()
	if err != nil {
		return nil, err
	}
	var hs []harnessInfo
	for _, l := range strings.Split(strings.TrimSpace(string(out)), "\n") {
		f := strings.Fields(l)
		if len(f) == 2 {
			hs = append(hs, harnessInfo{f[0], f[1]})
		}
	}
	sort.Slice(hs, func(i, j int) bool { return hs[i].Name < hs[j].Name })
	return hs, nil
}

// parseJob extracts engine-level job parameters from a job string of the
// form "@k=v,k=v@rest" (the harness sees the whole string).
func parseJob(harness, param string) *interp.Job {
	j := &interp.Job{Harness: harness, Param: param}
	if strings.HasPrefix(param, "@") {
		if end := strings.Index(param[1:], "@"); end >= 0 {
			for _, kv := range strings.Split(param[1:1+end], ",") {
				k, v, _ := strings.Cut(kv, "=")
				n, _ := strconv.ParseInt(v, 10, 64)
				switch k {
				case "numcpu":
					j.NumCPU = int(n)
				case "clock":
					j.ClockStepNs = n
				case "sched":
					j.SchedChoices = int(n)
				case "race":
					j.Race = n != 0
				case "noleak":
					j.NoLeakCheck = n != 0
				case "steps":
					j.MaxSteps = n
				case "solver":
					j.Solver = v
				case "decisions":
					j.MaxDecisions = int(n)
				case "paths":
					j.MaxPaths = int(n)
				case "expect":
					j.Expect = append(j.Expect, v)
				case "expectnot":
					j.ExpectNot = append(j.ExpectNot, v)
				}
			}
		}
	}
	return j
}

type evidence struct {
	PropertyID  string         `json:"property_id"`
	Tier        string         `json:"tier"`
	Seed        int64          `json:"seed"`
	Level       string         `json:"level"`
	Coverage    map[string]any `json:"coverage"`
	Assumptions []string       `json:"assumptions"`
	WallS       float64        `json:"wall_s"`
	Violations  int            `json:"violations"`
}

var propLevel = map[string]string{
	"C01": "translation_validation", "C02": "translation_validation", "C16": "translation_validation", "C19": "translation_validation",
}

func cmdCheck(args []string) int {
	fs := flag.NewFlagSet("check", flag.ExitOnError)
	tier := fs.String("tier", os.Getenv("VERIF_TIER"), "quick|thorough")
	workers := fs.Int("workers", 16, "workers")
	only := fs.String("harness", "", "run only this harness (development)")
	budget := fs.Duration("budget", 0, "wall-clock budget for exploration (0 = tier default)")
	if len(args) < 1 {
		fmt.Fprintln(os.Stderr, "usage: verifctl check <property> [--tier quick|thorough]")
		return 2
	}
	prop := args[0]
	fs.Parse(args[1:])
	if *tier == "" {
		*tier = "quick"
	}
	seed := int64(1)
	if s := os.Getenv("VERIF_SEED"); s != "" {
		if n, err := strconv.ParseInt(s, 10, 64); err == nil {
			seed = n
		}
	}
	t0 := time.Now()
	if _, err := buildNative(false); err != nil {
		fmt.Println("INCOMPLETE property=" + prop + " cannot build native harness against /repo: " + firstLine(err.Error()))
		fmt.Fprintln(os.Stderr, err)
		return 3
	}
	hs, err := listHarnesses()
	if err != nil {
		fmt.Fprintln(os.Stderr, err)
		return 3
	}
	var mine []harnessInfo
	for _, h := range hs {
		if h.Property == prop && (*only == "" || *only == h.Name) {
			mine = append(mine, h)
		}
	}
	if len(mine) == 0 {
		fmt.Fprintln(os.Stderr, "no harness for property", prop)
		return 3
	}
	p, err := loadProgram()
	if err != nil {
		fmt.Println("INCOMPLETE property=" + prop + " cannot load /repo into the engine: " + firstLine(err.Error()))
		return 3
	}

	// translator validation on this run's build
	stLimit := 60
	if *tier == "thorough" {
		stLimit = 0
	}
	stOK, stN, stBad, err := selftest(p, stLimit)
	if err != nil {
		fmt.Fprintln(os.Stderr, "selftest:", err)
		return 3
	}

	cfg := interp.DefaultConfig()
	cfg.Workers = *workers
	if *tier == "thorough" {
		cfg.SolverTimeoutMs = 120000
		cfg.FallbackTimeoutMs = 300000
		cfg.MaxPathsPerJob = 200000
	}
	d := *budget
	if d == 0 {
		d = 15 * time.Minute
		if *tier == "thorough" {
			d = 90 * time.Minute
		}
	}
	cfg.Deadline = time.Now().Add(d)
	// watchdog: the deadline is looked at between paths; a single path that does not come back (e.g. the
	// interpreter unwinding an extremely deep recursion) must not hang the check: not decided = exit 3
	time.AfterFunc(d+12*time.Minute, func() {
		fmt.Printf("INCOMPLETE property=%s exploration did not return %s after its deadline: a path does not end within reach of the engine\n", prop, 12*time.Minute)
		os.Exit(3)
	})
	ex := interp.NewExplorer(p, cfg)
	var jobs []*interp.Job
	jobCount := map[string]int{}
	needRace := false
	for _, h := range mine {
		js, err := listJobs(h.Name, *tier, seed)
		if err != nil {
			fmt.Fprintln(os.Stderr, err)
			return 3
		}
		jobCount[h.Name] = len(js)
		for _, j := range js {
			job := parseJob(h.Name, j)
			if job.Race {
				needRace = true
			}
			jobs = append(jobs, job)
		}
	}
	_ = needRace
	res := ex.Run(jobs)

	known := loadKnown()
	var incomplete []string
	var samples []any
	paths, decisions, steps := 0, int64(0), int64(0)
	oc, osy, oso, of, oi := 0, 0, 0, 0, 0
	replayed, confirmedN, unconfirmed := 0, 0, 0
	violations := 0
	knownHits := map[string]int{}
	var vioLines, knownLines, unconfLines []string
	jobsWithFinding := 0
	raceBuilt := false
	type fkey struct{ job, kind, id string }
	for _, jr := range res {
		paths += jr.Paths
		decisions += jr.Decisions
		steps += jr.Steps
		oc += jr.OblConcrete
		osy += jr.OblSyntactic
		oso += jr.OblSolver
		of += jr.OblFailed
		oi += jr.OblInconclusive
		for _, inc := range jr.Incomplete {
			incomplete = append(incomplete, jr.Job.Harness+"/"+short(jr.Job.Param)+": "+inc)
		}
		if len(jr.Reached) == 0 && len(jr.Findings) == 0 {
			incomplete = append(incomplete, jr.Job.Harness+"/"+short(jr.Job.Param)+": vacuous (no reach marker on any path: "+fmt.Sprint(jr.Aborted)+")")
		}
		for _, want := range jr.Job.Expect {
			hit := false
			for r := range jr.Reached {
				hit = hit || strings.Contains(r, want)
			}
			if !hit {
				incomplete = append(incomplete, jr.Job.Harness+"/"+short(jr.Job.Param)+": vacuous (no path reached a marker containing "+want+")")
			}
		}
		for _, bad := range jr.Job.ExpectNot {
			for r := range jr.Reached {
				if strings.Contains(r, bad) {
					incomplete = append(incomplete, jr.Job.Harness+"/"+short(jr.Job.Param)+": job reached "+r+" although it is meant to exclude it")
				}
			}
		}
		if len(samples) < 12 {
			for _, s := range jr.Samples {
				if len(samples) < 12 {
					samples = append(samples, s)
				}
			}
		}
		// replay: at most 2 findings per (job, kind, id)
		perKey := map[fkey]int{}
		hadFinding := false
		for _, f := range jr.Findings {
			if f.Kind == "unknown" {
				incomplete = append(incomplete, jr.Job.Harness+"/"+short(jr.Job.Param)+": solver could not decide obligation "+f.ID)
				continue
			}
			k := fkey{f.Job, f.Kind, f.ID}
			if f.Kind == "race" || f.Kind == "frozen-store" {
				k.id = f.Detail
			}
			perKey[k]++
			if perKey[k] > 2 {
				continue
			}
			hadFinding = true
			path, err := writeReplay(prop, f)
			if err != nil {
				fmt.Fprintln(os.Stderr, err)
				return 3
			}
			race := f.Kind == "race" || f.Kind == "frozen-store"
			if race && !raceBuilt {
				if _, err := buildNative(true); err != nil {
					fmt.Fprintln(os.Stderr, err)
					return 3
				}
				raceBuilt = true
			}
			ro := runNative(path, race, 120*time.Second)
			replayed++
			f.Replayed = true
			f.ReplayFile = path
			f.Confirmed = confirm(f, ro)
			f.ReplayOut = tail(ro.Out, 400)
			if !f.Confirmed {
				unconfirmed++
				unconfLines = append(unconfLines, fmt.Sprintf("UNCONFIRMED property=%s harness=%s job=%q %s/%s: %s (native: exit=%d failed=%v)",
					prop, f.Harness, short(f.Job), f.Kind, f.ID, short(f.Detail), ro.ExitCode, ro.Failed))
				os.Remove(path)
				continue
			}
			confirmedN++
			matched := false
			for ki := range known {
				if known[ki].matches(prop, f) {
					matched = true
					key := known[ki].What
					knownHits[key]++
					if knownHits[key] == 1 {
						knownLines = append(knownLines, fmt.Sprintf("KNOWN-FINDING: property=%s %s [e.g. harness=%s job=%q %s/%s]",
							prop, known[ki].What, f.Harness, short(f.Job), f.Kind, f.ID))
					}
					os.Remove(path)
					break
				}
			}
			if !matched {
				violations++
				vioLines = append(vioLines, fmt.Sprintf("VIOLATION property=%s replay=%s", prop, path))
				vioLines = append(vioLines, fmt.Sprintf("  harness=%s job=%q %s/%s: %s inputs=%v", f.Harness, short(f.Job), f.Kind, f.ID, short(f.Detail), f.Inputs))
				if len(samples) < 20 {
					samples = append(samples, map[string]any{"violation": f.Kind + "/" + f.ID, "harness": f.Harness, "job": f.Job, "inputs": f.Inputs, "detail": f.Detail, "replay": path})
				}
			}
		}
		if hadFinding {
			jobsWithFinding++
		}
	}
	if stOK != stN {
		for _, b := range stBad {
			incomplete = append(incomplete, "selftest mismatch (engine does not reproduce the native build): "+b)
		}
	}
	for _, l := range knownLines {
		fmt.Println(l)
	}
	for _, l := range unconfLines {
		fmt.Println(l)
	}
	for _, l := range vioLines {
		fmt.Println(l)
	}
	for k, inc := range incomplete {
		if k < 15 {
			fmt.Println("INCOMPLETE property=" + prop + " " + inc)
		}
	}

	// evidence
	level := propLevel[prop]
	if level == "" {
		level = "model_checking"
	}
	st := ex.Stats
	var funcs []string
	for f := range ex.FuncsSeen {
		funcs = append(funcs, f)
	}
	sort.Strings(funcs)
	nf := len(funcs)
	if len(funcs) > 60 {
		funcs = funcs[:60]
	}
	cov := map[string]any{
		"samples":                        samples,
		"states":                         paths,
		"transitions":                    int(decisions) + paths,
		"traces_validated_against_impl":  replayed + stOK,
		"programs":                       len(jobs),
		"disagreements_checked":          replayed,
		"evaluations":                    paths,
		"distinct_nontrivial":            len(jobs),
		"rule":                           "one evaluation = one symbolic path (a set of inputs sharing a control flow) of one harness job; jobs are distinct templates/configurations generated by the harness for this tier and seed",
		"paths":                          paths,
		"jobs":                           len(jobs),
		"jobs_per_harness":               jobCount,
		"ssa_steps":                      steps,
		"obligations":                    oc + osy + oso + of + oi,
		"discharged":                     oc + osy + oso,
		"obligation_breakdown":           map[string]int{"concrete_or_constant_folded": oc, "implied_by_path_condition": osy, "solver_unsat": oso, "failed": of, "inconclusive": oi},
		"queries":                        map[string]int64{"total": st.Queries, "sat": st.Sat, "unsat": st.Unsat, "unknown": st.Unknown, "errors": st.Errors, "fallback_runs": st.Fallbacks},
		"solver_s":                       float64(st.NanosZ3+st.NanosFB) / 1e9,
		"solvers":                        "z3 4.8.12 (primary, incremental per path); cvc5 1.0.3 and z3 5.1.0 one-shot on unknown",
		"functions_encoded_count":        nf,
		"functions_encoded_sample":       funcs,
		"selftest":                       fmt.Sprintf("%d/%d repository test expressions agree between native build and engine", stOK, stN),
		"replayed_natively":              replayed,
		"confirmed":                      confirmedN,
		"unconfirmed":                    unconfirmed,
		"known_findings_matched":         knownHits,
		"incomplete":                     incomplete,
		"encoding_regenerated_from":      "/repo working tree via go/packages+go/ssa on this run",
		"load_s":                         p.LoadS,
		"ssa_build_s":                    p.BuildS,
		"bounds":                         boundsText[prop],
		"exhaustive":                     false,
	}
	ev := evidence{PropertyID: prop, Tier: *tier, Seed: seed, Level: level, Coverage: cov,
		Assumptions: assumptionsText(prop), WallS: time.Since(t0).Seconds(), Violations: violations}
	os.MkdirAll(filepath.Join(verifDir, "evidence"), 0o755)
	b, _ := json.MarshalIndent(ev, "", " ")
	if err := os.WriteFile(filepath.Join(verifDir, "evidence", prop+".json"), b, 0o644); err != nil {
		fmt.Fprintln(os.Stderr, err)
		return 3
	}
	fmt.Printf("%s %s: jobs=%d paths=%d obligations(concrete=%d syntactic=%d solver=%d failed=%d inconclusive=%d) queries=%d solver=%.1fs replayed=%d confirmed=%d known=%d violations=%d incomplete=%d wall=%.1fs\n",
		prop, *tier, len(jobs), paths, oc, osy, oso, of, oi, st.Queries, float64(st.NanosZ3+st.NanosFB)/1e9, replayed, confirmedN, len(knownHits), violations, len(incomplete), time.Since(t0).Seconds())
	if violations > 0 {
		return 1
	}
	if len(incomplete) > 0 {
		return 3
	}
	return 0
}

func short(s string) string {
	s = strings.ReplaceAll(s, "\n", "\\n")
	if len(s) > 160 {
		return s[:160] + "…"
	}
	return s
}

func firstLine(s string) string {
	if k := strings.IndexByte(s, '\n'); k >= 0 {
		return s[:k]
	}
	return s
}

func cmdReplay(args []string) int {
	if len(args) < 1 {
		fmt.Fprintln(os.Stderr, "usage: verifctl replay <file>")
		return 2
	}
	if _, err := buildNative(false); err != nil {
		fmt.Fprintln(os.Stderr, err)
		return 3
	}
	b, err := os.ReadFile(args[0])
	if err != nil {
		fmt.Fprintln(os.Stderr, err)
		return 3
	}
	var rf replayFile
	if err := json.Unmarshal(b, &rf); err != nil {
		fmt.Fprintln(os.Stderr, err)
		return 3
	}
	kind, id, _ := strings.Cut(rf.Expect, ":")
	f := &interp.Finding{Harness: rf.Harness, Job: rf.Job, Kind: kind, ID: id}
	race := kind == "race" || kind == "frozen-store"
	if race {
		if _, err := buildNative(true); err != nil {
			fmt.Fprintln(os.Stderr, err)
			return 3
		}
	}
	ro := runNative(args[0], race, 120*time.Second)
	fmt.Print(ro.Out)
	if confirm(f, ro) {
		fmt.Printf("REPRODUCED property=%s %s (%s)\n", rf.Property, rf.Expect, rf.What)
		return 1
	}
	fmt.Printf("NOT-REPRODUCED property=%s %s\n", rf.Property, rf.Expect)
	return 0
}
