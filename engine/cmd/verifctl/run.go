package main

import (
	"flag"
	"fmt"
	"os"
	"time"

	"symgo/interp"
)

func cmdRun(args []string) int {
	fs := flag.NewFlagSet("run", flag.ExitOnError)
	workers := fs.Int("workers", 16, "workers")
	trace := fs.Bool("trace", false, "print target output")
	tier := fs.String("tier", "quick", "tier for job listing")
	maxPaths := fs.Int("maxpaths", 20000, "path budget per job")
	noReplay := fs.Bool("noreplay", false, "do not replay findings natively")
	numcpu := fs.Int("numcpu", 4, "runtime.NumCPU in the target")
	clock := fs.Int64("clockstep", 0, "virtual ns per time.Now call")
	sched := fs.Int("sched", 0, "scheduler choice points per path")
	fs.Parse(args)
	rest := fs.Args()
	if len(rest) < 1 {
		fmt.Fprintln(os.Stderr, "usage: verifctl run [flags] <harness> [job ...]")
		return 2
	}
	harness := rest[0]
	if _, err := buildNative(false); err != nil {
		fmt.Fprintln(os.Stderr, err)
		return 3
	}
	jobs := rest[1:]
	if len(jobs) == 0 {
		var err error
		jobs, err = listJobs(harness, *tier, 1)
		if err != nil {
			fmt.Fprintln(os.Stderr, err)
			return 3
		}
	}
	t0 := time.Now()
	p, err := loadProgram()
	if err != nil {
		fmt.Fprintln(os.Stderr, "load:", err)
		return 3
	}
	fmt.Printf("loaded in %.1fs (load %.1fs, ssa %.1fs)\n", time.Since(t0).Seconds(), p.LoadS, p.BuildS)
	cfg := interp.DefaultConfig()
	cfg.Workers = *workers
	cfg.Trace = *trace
	cfg.MaxPathsPerJob = *maxPaths
	cfg.NumCPU = *numcpu
	cfg.ClockStepNs = *clock
	cfg.SchedChoices = *sched
	ex := interp.NewExplorer(p, cfg)
	ex.Log = func(s string) { fmt.Println(s) }
	var js []*interp.Job
	for _, j := range jobs {
		js = append(js, parseJob(harness, j))
	}
	t1 := time.Now()
	res := ex.Run(js)
	fmt.Printf("explored in %.1fs\n", time.Since(t1).Seconds())
	rc := 0
	for _, jr := range res {
		fmt.Printf("JOB %s/%s paths=%d steps=%d oblig(concrete=%d syntactic=%d solver=%d failed=%d inconcl=%d) reached=%v status=%v\n",
			jr.Job.Harness, jr.Job.Param, jr.Paths, jr.Steps, jr.OblConcrete, jr.OblSyntactic, jr.OblSolver, jr.OblFailed, jr.OblInconclusive,
			sortedKeys(jr.Reached), jr.Aborted)
		for _, inc := range jr.Incomplete {
			fmt.Println("  INCOMPLETE:", inc)
			rc = 3
		}
		for _, f := range jr.Findings {
			fmt.Printf("  FINDING %s/%s: %s inputs=%v path=%s\n", f.Kind, f.ID, f.Detail, f.Inputs, f.Path)
			if !*noReplay {
				path, _ := writeReplay("DEV", f)
				isRace := f.Kind == "race" || f.Kind == "frozen-store"
				if isRace {
					buildNative(true)
				}
				ro := runNative(path, isRace, 60*time.Second)
				fmt.Printf("    replay %s: exit=%d failed=%v panicked=%v confirmed=%v\n", path, ro.ExitCode, ro.Failed, ro.Panicked, confirm(f, ro))
				if !confirm(f, ro) {
					fmt.Println("    native output:", tail(ro.Out, 600))
				}
			}
		}
	}
	st := ex.Stats
	fmt.Printf("solver: queries=%d sat=%d unsat=%d unknown=%d errors=%d fallbacks=%d z3=%.2fs fb=%.2fs\n",
		st.Queries, st.Sat, st.Unsat, st.Unknown, st.Errors, st.Fallbacks, float64(st.NanosZ3)/1e9, float64(st.NanosFB)/1e9)
	return rc
}

