package main

import (
	"encoding/json"
	"fmt"
	"os"
	"os/exec"
	"path/filepath"
	"regexp"
	"strconv"
	"strings"
	"time"

	"symgo/interp"
)

var expRe = regexp.MustCompile("exp:\\s*(\"(?:[^\"\\\\]|\\\\.)*\"|`[^`]*`)")

// harvestExpressions collects the exp: strings of the repository's own test tables.
func harvestExpressions() []string {
	var out []string
	seen := map[string]bool{}
	files, _ := filepath.Glob("/repo/value/*_test.go")
	for _, f := range files {
		b, err := os.ReadFile(f)
		if err != nil {
			continue
		}
		for _, m := range expRe.FindAllStringSubmatch(string(b), -1) {
			s, err := strconv.Unquote(m[1])
			if err != nil || seen[s] {
				continue
			}
			if strings.Contains(s, "random") {
				continue
			}
			seen[s] = true
			out = append(out, s)
		}
	}
	return out
}

// selftest runs the harvested expressions natively and concretely in the engine.
// It returns (agreeing, total, mismatch descriptions).
func selftest(p *interp.Program, limit int) (int, int, []string, error) {
	exps := harvestExpressions()
	if limit > 0 && len(exps) > limit {
		exps = exps[:limit]
	}
	tmp, err := os.CreateTemp("", "selftest*.json")
	if err != nil {
		return 0, 0, nil, err
	}
	defer os.Remove(tmp.Name())
	json.NewEncoder(tmp).Encode(exps)
	tmp.Close()
	cmd := exec.Command(nativeBin(), "selftest", tmp.Name())
	cmd.Env = goEnv()
	outb, err := cmd.Output()
	if err != nil {
		return 0, 0, nil, fmt.Errorf("native selftest: %v", err)
	}
	var native []string
	if err := json.Unmarshal(outb, &native); err != nil {
		return 0, 0, nil, err
	}
	cfg := interp.DefaultConfig()
	cfg.MaxStepsPerPath = 200_000_000
	cfg.CheckLeaks = false
	ex := interp.NewExplorer(p, cfg)
	var jobs []*interp.Job
	for _, e := range exps {
		jobs = append(jobs, &interp.Job{Harness: "selftest", Param: e})
	}
	res := ex.Run(jobs)
	ok := 0
	var bad []string
	for k, jr := range res {
		got := "<no output: " + fmt.Sprint(jr.Aborted) + ">"
		if len(jr.Samples) > 0 && len(jr.Samples[0].Notes) > 0 {
			got = strings.TrimPrefix(jr.Samples[0].Notes[0], "OUT ")
		}
		if got == native[k] {
			ok++
		} else {
			bad = append(bad, fmt.Sprintf("%q: native %s engine %s %v", exps[k], native[k], got, jr.Incomplete))
		}
	}
	return ok, len(exps), bad, nil
}

func cmdSelftest(args []string) int {
	if _, err := buildNative(false); err != nil {
		fmt.Fprintln(os.Stderr, err)
		return 3
	}
	p, err := loadProgram()
	if err != nil {
		fmt.Fprintln(os.Stderr, "load:", err)
		return 3
	}
	t0 := time.Now()
	ok, n, bad, err := selftest(p, 0)
	if err != nil {
		fmt.Fprintln(os.Stderr, err)
		return 3
	}
	for _, b := range bad {
		fmt.Println("MISMATCH", b)
	}
	fmt.Printf("selftest: %d/%d repository test expressions agree between native build and engine (%.1fs)\n", ok, n, time.Since(t0).Seconds())
	if ok != n {
		return 3
	}
	return 0
}
