package main

import (
	"bytes"
	"crypto/sha1"
	"encoding/hex"
	"encoding/json"
	"fmt"
	"os"
	"os/exec"
	"path/filepath"
	"sort"
	"strings"
	"time"

	"symgo/interp"
)

var verifDir = func() string {
	if d := os.Getenv("VERIF_DIR"); d != "" {
		return d
	}
	return "/verif"
}()

func harnessDir() string { return filepath.Join(verifDir, "harness") }
func nativeBin() string  { return filepath.Join(verifDir, "bin", "native") }

// goEnv is the environment for the baseline toolchain (default go, which
// switches to the toolchain named in /repo/go.mod from the module cache).
func goEnv() []string {
	var env []string
	for _, e := range os.Environ() {
		if strings.HasPrefix(e, "GOTOOLCHAIN=") || strings.HasPrefix(e, "GOSUMDB=") || strings.HasPrefix(e, "GOFLAGS=") ||
			strings.HasPrefix(e, "GOPROXY=") || strings.HasPrefix(e, "VERIF_REPLAY=") {
			continue
		}
		if strings.HasPrefix(e, "PATH=") {
			// drop the go1.26.8 directory if a caller put it first
			parts := strings.Split(e[5:], ":")
			var keep []string
			for _, p := range parts {
				if !strings.Contains(p, "go1.26.8") {
					keep = append(keep, p)
				}
			}
			e = "PATH=" + strings.Join(keep, ":")
		}
		env = append(env, e)
	}
	return append(env, "GOFLAGS=-mod=mod", "GOPROXY=off")
}

// buildNative compiles the native twin of the harnesses against /repo's current tree.
func buildNative(race bool) (string, error) {
	out := nativeBin()
	args := []string{"build", "-o", out}
	if race {
		out += "-race"
		args = []string{"build", "-race", "-o", out}
	}
	args = append(args, "./cmd/native")
	os.MkdirAll(filepath.Dir(out), 0o755)
	cmd := exec.Command("go", args...)
	cmd.Dir = harnessDir()
	cmd.Env = goEnv()
	var buf bytes.Buffer
	cmd.Stdout = &buf
	cmd.Stderr = &buf
	if err := cmd.Run(); err != nil {
		return "", fmt.Errorf("building native harness: %v\n%s", err, buf.String())
	}
	return out, nil
}

func listJobs(harness, tier string, seed int64) ([]string, error) {
	cmd := exec.Command(nativeBin(), "list", harness, tier, fmt.Sprint(seed))
	cmd.Env = goEnv()
	out, err := cmd.Output()
	if err != nil {
		return nil, fmt.Errorf("listing jobs of %s: %v", harness, err)
	}
	var jobs []string
	if err := json.Unmarshal(out, &jobs); err != nil {
		return nil, err
	}
	return jobs, nil
}

func loadProgram() (*interp.Program, error) {
	// packages.Load shells out to `go list`; give it the baseline environment
	for _, kv := range goEnv() {
		if k, v, ok := strings.Cut(kv, "="); ok && (k == "PATH" || k == "GOFLAGS" || k == "GOPROXY") {
			os.Setenv(k, v)
		}
	}
	os.Unsetenv("GOTOOLCHAIN")
	os.Unsetenv("GOSUMDB")
	p, err := interp.Load(harnessDir(), "./hx", nil, "RunHarness")
	if err != nil {
		return nil, err
	}
	interp.SetProgram(p)
	return p, nil
}

// ---- replay ----

type replayFile struct {
	Property string            `json:"property"`
	Harness  string            `json:"harness"`
	Job      string            `json:"job"`
	Inputs   map[string]string `json:"inputs"`
	Expect   string            `json:"expect"`
	What     string            `json:"what"`
	Extra    map[string]string `json:"extra,omitempty"`
}

func writeReplay(property string, f *interp.Finding) (string, error) {
	rf := replayFile{Property: property, Harness: f.Harness, Job: f.Job, Inputs: f.Inputs,
		Expect: f.Kind + ":" + f.ID, What: f.Detail}
	b, _ := json.MarshalIndent(rf, "", " ")
	h := sha1.Sum(b)
	dir := filepath.Join(verifDir, "replays")
	os.MkdirAll(dir, 0o755)
	tag := f.Harness
	if f.Kind == "steps" || f.Kind == "deadlock" {
		tag += "-steps"
	}
	path := filepath.Join(dir, fmt.Sprintf("%s-%s-%s.json", property, tag, hex.EncodeToString(h[:5])))
	return path, os.WriteFile(path, b, 0o644)
}

type replayOutcome struct {
	ExitCode   int
	Out        string
	Failed     []string // assertion ids
	Panicked   bool
	TimedOut   bool
	LeakLine   string
	Done       bool
}

// runNative replays a file against the natively compiled harness.  Under the
// race detector the native schedule is whatever the machine produces, so a
// race replay is repeated a few times until the detector has seen the pair.
func runNative(path string, race bool, timeout time.Duration) replayOutcome {
	ro := runNativeOnce(path, race, timeout)
	// a left-behind goroutine is observed natively after a grace period: on a loaded machine the
	// observation can be early, so a leak replay that saw nothing is repeated twice
	if b, err := os.ReadFile(path); err == nil && strings.Contains(string(b), "\"expect\": \"leak:") {
		for try := 1; try < 3 && ro.LeakLine == "" && !ro.TimedOut && !ro.Panicked; try++ {
			ro = runNativeOnce(path, race, timeout)
		}
	}
	for try := 1; race && try < 8 && !strings.Contains(ro.Out, "WARNING: DATA RACE") && len(ro.Failed) == 0 && !ro.TimedOut && !ro.Panicked; try++ {
		ro = runNativeOnce(path, race, timeout)
	}
	return ro
}

func runNativeOnce(path string, race bool, timeout time.Duration) replayOutcome {
	if strings.Contains(path, "-steps-") {
		timeout = 20 * time.Second // a hang is confirmed by a timeout: keep it short
	}
	bin := nativeBin()
	if race {
		bin += "-race"
	}
	cmd := exec.Command(bin, "replay")
	cmd.Env = append(goEnv(), "VERIF_REPLAY="+path)
	var buf bytes.Buffer
	cmd.Stdout = &buf
	cmd.Stderr = &buf
	var ro replayOutcome
	if err := cmd.Start(); err != nil {
		ro.Out = err.Error()
		ro.ExitCode = -1
		return ro
	}
	done := make(chan error, 1)
	go func() { done <- cmd.Wait() }()
	select {
	case err := <-done:
		if err != nil {
			if ee, ok := err.(*exec.ExitError); ok {
				ro.ExitCode = ee.ExitCode()
			} else {
				ro.ExitCode = -1
			}
		}
	case <-time.After(timeout):
		cmd.Process.Kill()
		<-done
		ro.TimedOut = true
		ro.ExitCode = -2
	}
	ro.Out = buf.String()
	for _, l := range strings.Split(ro.Out, "\n") {
		l = strings.TrimSpace(l)
		switch {
		case strings.HasPrefix(l, "ASSERT-FAILED "):
			ro.Failed = append(ro.Failed, strings.TrimPrefix(l, "ASSERT-FAILED "))
		case strings.HasPrefix(l, "panic:") || strings.HasPrefix(l, "fatal error:"):
			ro.Panicked = true
		case strings.HasPrefix(l, "NATIVE-DONE"):
			ro.Done = true
		case strings.HasPrefix(l, "NATIVE-LEAK") || strings.HasPrefix(l, "WARNING: DATA RACE"):
			ro.LeakLine = l
		}
	}
	return ro
}

// confirm decides whether a native replay reproduces the finding.
func confirm(f *interp.Finding, ro replayOutcome) bool {
	switch f.Kind {
	case "assert":
		for _, id := range ro.Failed {
			if id == f.ID {
				return true
			}
		}
		return false
	case "panic", "goroutine-panic":
		return ro.Panicked || (ro.ExitCode == 2 && !ro.Done)
	case "steps":
		return ro.TimedOut
	case "deadlock":
		return ro.TimedOut || strings.Contains(ro.Out, "all goroutines are asleep")
	case "leak":
		return strings.HasPrefix(ro.LeakLine, "NATIVE-LEAK")
	case "race", "frozen-store":
		// the race detector's report, or the visible consequence of the race (a wrong value)
		return strings.Contains(ro.Out, "WARNING: DATA RACE") || len(ro.Failed) > 0
	}
	return false
}

func tail(s string, n int) string {
	if len(s) <= n {
		return s
	}
	return "…" + s[len(s)-n:]
}

func sortedKeys(m map[string]bool) []string {
	ks := make([]string, 0, len(m))
	for k := range m {
		ks = append(ks, k)
	}
	sort.Strings(ks)
	return ks
}
