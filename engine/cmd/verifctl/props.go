package main

// Bounds and assumptions per property, written into every evidence file.

var boundsText = map[string]string{}

var commonAssumptions = []string{
	"bounded symbolic execution: the verdict covers every value of the symbolic inputs for each enumerated job, nothing outside the listed bounds",
	"engine = fork of x/tools go/ssa/interp v0.50.0; its fidelity is checked by the selftest (repository test expressions, native vs engine) and by native replay of every counterexample",
	"SMT encoding: Go ints as 64-bit bit-vectors (wrap-around), float64 as IEEE FloatingPoint RNE, float->int per amd64 CVTTSD2SQ",
	"stubs: log.* and debug.Stack empty; fmt.Sprintf/Errorf formatted natively (symbolic arguments print as a placeholder; message texts are never compared); time is a virtual clock; runtime.NumCPU is a job parameter; sync.Mutex/WaitGroup/Once, channels and select are the engine's deterministic scheduler",
	"math transcendental functions are evaluated natively on concrete arguments and are uninterpreted on symbolic ones",
	"Go maps iterate in insertion order inside the engine",
	"a counterexample counts only if it reproduces against the native build of /repo (replay)",
}

func assumptionsText(prop string) []string {
	return append(append([]string{}, commonAssumptions...), extraAssumptions[prop]...)
}

var extraAssumptions = map[string][]string{}
