// Copyright 2013 The Go Authors. All rights reserved.
// Use of this source code is governed by a BSD-style
// license that can be found in the LICENSE file.

// Package ssa/interp defines an interpreter for the SSA
// representation of Go programs.
//
// This interpreter is provided as an adjunct for testing the SSA
// construction algorithm.  Its purpose is to provide a minimal
// metacircular implementation of the dynamic semantics of each SSA
// instruction.  It is not, and will never be, a production-quality Go
// interpreter.
//
// The following is a partial list of Go features that are currently
// unsupported or incomplete in the interpreter.
//
// * Unsafe operations, including all uses of unsafe.Pointer, are
// impossible to support given the "boxed" value representation we
// have chosen.
//
// * The reflect package is only partially implemented.
//
// * The "testing" package is no longer supported because it
// depends on low-level details that change too often.
//
// * "sync/atomic" operations are not atomic due to the "boxed" value
// representation: it is not possible to read, modify and write an
// interface value atomically. As a consequence, Mutexes are currently
// broken.
//
// * recover is only partially implemented.  Also, the interpreter
// makes no attempt to distinguish target panics from interpreter
// crashes.
//
// * the sizes of the int, uint and uintptr types in the target
// program are assumed to be the same as those of the interpreter
// itself.
//
// * all values occupy space, even those of types defined by the spec
// to have zero size, e.g. struct{}.  This can cause asymptotic
// performance degradation.
//
// * os.Exit is implemented using panic, causing deferred functions to
// run.
package interp // import "golang.org/x/tools/go/ssa/interp"

import (
	"fmt"
	"go/token"
	"go/types"
	"log"
	"os"
	"runtime"
	"slices"
	_ "unsafe"

	"golang.org/x/tools/go/ssa"
)

type continuation int

const (
	kNext continuation = iota
	kReturn
	kJump
)

// Mode is a bitmask of options affecting the interpreter.
type Mode uint

const (
	DisableRecover Mode = 1 << iota // Disable recover() in target programs; show interpreter crash instead.
	EnableTracing                   // Print a trace of all instructions as they are interpreted.
)

type methodSet map[string]*ssa.Function

// State of one worker's interpreter (one path at a time).
type interpreter struct {
	osArgs             []value                // the value of os.Args
	prog               *ssa.Program           // the SSA program
	globals            map[*ssa.Global]*value // addresses of global variables (immutable)
	mode               Mode                   // interpreter options
	reflectPackage     *ssa.Package           // the fake reflect package
	errorMethods       methodSet              // the method set of reflect.error, which implements the error interface.
	rtypeMethods       methodSet              // the method set of rtype, which implements the reflect.Type interface.
	runtimeErrorString types.Type             // the runtime.errorString type (iff "runtime" is present)
	sizes              types.Sizes            // the effective type-sizing function

	// symbolic engine
	cfg              *Config
	tc               *tctx
	slv              *solver
	stats            *SolverStats
	path             *pathState
	sched            *scheduler
	job              *Job
	syncTab          map[*value]*syncState
	race             *raceMonitor
	abortReason      string
	schedChoicesUsed int
	funcsSeen        map[*ssa.Function]bool
	initDone         map[*ssa.Package]bool
	lenient          int // >0 while running initialisers of packages outside the allow-list
	hostCounters     map[string]int64
	fpMemo           map[*term]bool
	noFork           bool
}

type deferred struct {
	fn    value
	args  []value
	instr *ssa.Defer
	tail  *deferred
}

// maxCallDepth bounds the nesting of interpreted calls (each costs ~2 KB of host stack); the
// deepest legitimate nesting of the target - 10000 value-stack entries of the expression
// language - stays far below it.
const maxCallDepth = 60000

var maxDepthSeen int // diagnostic (SYMGO_DEBUG_SCHED)

type frame struct {
	i                *interpreter
	caller           *frame
	fn               *ssa.Function
	block, prevBlock *ssa.BasicBlock
	env              map[ssa.Value]value // dynamic values of SSA variables
	locals           []value
	defers           *deferred
	result           value
	panicking        bool
	panic            any
	phitemps         []value // temporaries for parallel phi assignment
	depth            int     // nesting depth of interpreted calls on this goroutine
}

func (fr *frame) get(key ssa.Value) value {
	switch key := key.(type) {
	case nil:
		// Hack; simplifies handling of optional attributes
		// such as ssa.Slice.{Low,High}.
		return nil
	case *ssa.Function, *ssa.Builtin:
		return key
	case *ssa.Const:
		return constValue(key)
	case *ssa.Global:
		if r, ok := fr.i.globals[key]; ok {
			return r
		}
	}
	if r, ok := fr.env[key]; ok {
		return r
	}
	panic(fmt.Sprintf("get: no value for %T: %v", key, key.Name()))
}

// runDefer runs a deferred call d.
// It always returns normally, but may set or clear fr.panic.
func (fr *frame) runDefer(d *deferred) {
	if fr.i.mode&EnableTracing != 0 {
		fmt.Fprintf(os.Stderr, "%s: invoking deferred function call\n",
			fr.i.prog.Fset.Position(d.instr.Pos()))
	}
	var ok bool
	defer func() {
		if !ok {
			// Deferred call created a new state of panic.
			r := recover()
			if ab, isAbort := r.(pathAbort); isAbort {
				panic(ab)
			}
			fr.panicking = true
			fr.panic = r
		}
	}()
	call(fr.i, fr, d.instr.Pos(), d.fn, d.args)
	ok = true
}

// runDefers executes fr's deferred function calls in LIFO order.
//
// On entry, fr.panicking indicates a state of panic; if
// true, fr.panic contains the panic value.
//
// On completion, if a deferred call started a panic, or if no
// deferred call recovered from a previous state of panic, then
// runDefers itself panics after the last deferred call has run.
//
// If there was no initial state of panic, or it was recovered from,
// runDefers returns normally.
func (fr *frame) runDefers() {
	for d := fr.defers; d != nil; d = d.tail {
		fr.runDefer(d)
	}
	fr.defers = nil
	if fr.panicking {
		panic(fr.panic) // new panic, or still panicking
	}
}

// lookupMethod returns the method set for type typ, which may be one
// of the interpreter's fake types.
func lookupMethod(i *interpreter, typ types.Type, meth *types.Func) *ssa.Function {
	switch typ {
	case rtypeType:
		return i.rtypeMethods[meth.Id()]
	case errorType:
		return i.errorMethods[meth.Id()]
	}
	return i.prog.LookupMethod(typ, meth.Pkg(), meth.Name())
}

// visitInstr interprets a single ssa.Instruction within the activation
// record frame.  It returns a continuation value indicating where to
// read the next instruction from.
func visitInstr(fr *frame, instr ssa.Instruction) continuation {
	switch instr := instr.(type) {
	case *ssa.DebugRef:
		// no-op

	case *ssa.UnOp:
		fr.env[instr] = fr.i.unop(fr, instr, fr.get(instr.X))

	case *ssa.BinOp:
		fr.env[instr] = fr.i.binop(instr.Op, instr.X.Type(), fr.get(instr.X), fr.get(instr.Y))

	case *ssa.Call:
		if fr.i.lenient > 0 {
			fr.env[instr] = lenientCall(fr, instr)
		} else {
			fn, args := prepareCall(fr, &instr.Call)
			fr.env[instr] = call(fr.i, fr, instr.Pos(), fn, args)
		}

	case *ssa.ChangeInterface:
		fr.env[instr] = fr.get(instr.X)

	case *ssa.ChangeType:
		fr.env[instr] = fr.get(instr.X) // (can't fail)

	case *ssa.Convert:
		fr.env[instr] = fr.i.conv(instr.Type(), instr.X.Type(), fr.get(instr.X))

	case *ssa.SliceToArrayPointer:
		fr.env[instr] = sliceToArrayPointer(instr.Type(), instr.X.Type(), fr.get(instr.X))

	case *ssa.MakeInterface:
		fr.env[instr] = iface{t: instr.X.Type(), v: fr.get(instr.X)}

	case *ssa.Extract:
		fr.env[instr] = fr.get(instr.Tuple).(tuple)[instr.Index]

	case *ssa.Slice:
		fr.env[instr] = fr.i.slice(fr.get(instr.X), fr.get(instr.Low), fr.get(instr.High), fr.get(instr.Max))

	case *ssa.Return:
		switch len(instr.Results) {
		case 0:
		case 1:
			fr.result = fr.get(instr.Results[0])
		default:
			var res []value
			for _, r := range instr.Results {
				res = append(res, fr.get(r))
			}
			fr.result = tuple(res)
		}
		fr.block = nil
		return kReturn

	case *ssa.RunDefers:
		fr.runDefers()

	case *ssa.Panic:
		panic(targetPanic{fr.get(instr.X)})

	case *ssa.Send:
		fr.i.sched.chanSend(fr.get(instr.Chan).(*schan), copyVal(fr.get(instr.X)))

	case *ssa.Store:
		addr := fr.get(instr.Addr).(*value)
		if addr == nil {
			panic(runtimeErr("runtime error: invalid memory address or nil pointer dereference"))
		}
		fr.i.onStore(fr, instr, addr)
		store(mustDeref(instr.Addr.Type()), addr, fr.get(instr.Val))

	case *ssa.If:
		succ := 1
		switch c := fr.get(instr.Cond).(type) {
		case bool:
			if c {
				succ = 0
			}
		case symv:
			if fr.i.decide(c.t) {
				succ = 0
			}
		}
		fr.prevBlock, fr.block = fr.block, fr.block.Succs[succ]
		return kJump

	case *ssa.Jump:
		fr.prevBlock, fr.block = fr.block, fr.block.Succs[0]
		return kJump

	case *ssa.Defer:
		fn, args := prepareCall(fr, &instr.Call)
		defers := &fr.defers
		if into := fr.get(instr.DeferStack); into != nil {
			defers = into.(**deferred)
		}
		*defers = &deferred{
			fn:    fn,
			args:  args,
			instr: instr,
			tail:  *defers,
		}

	case *ssa.Go:
		fn, args := prepareCall(fr, &instr.Call)
		if fr.i.path != nil && fr.fn != nil {
			// engine generated reach marker: which code started a goroutine on this path
			fr.i.path.reached["go:"+fr.fn.String()] = true
		}
		fr.i.sched.spawn(fn, args, fr.i.prog.Fset.Position(instr.Pos()).String())

	case *ssa.MakeChan:
		fr.env[instr] = fr.i.sched.newChan(int(fr.i.concreteIndex(fr.get(instr.Size), "channel capacity")),
			instr.Type().Underlying().(*types.Chan).Elem())

	case *ssa.Alloc:
		var addr *value
		if instr.Heap {
			// new
			addr = new(value)
			fr.env[instr] = addr
		} else {
			// local
			addr = fr.env[instr].(*value)
		}
		*addr = zero(mustDeref(instr.Type()))

	case *ssa.MakeSlice:
		n := fr.i.concreteIndex(fr.get(instr.Cap), "make cap")
		if n < 0 || n > 1<<24 {
			panic(runtimeErr("runtime error: makeslice: cap out of range"))
		}
		slice := make([]value, n)
		tElt := instr.Type().Underlying().(*types.Slice).Elem()
		for i := range slice {
			slice[i] = zero(tElt)
		}
		ln := fr.i.concreteIndex(fr.get(instr.Len), "make len")
		if ln < 0 || ln > n {
			panic(runtimeErr("runtime error: makeslice: len out of range"))
		}
		fr.env[instr] = slice[:ln]

	case *ssa.MakeMap:
		var reserve int64
		if instr.Reserve != nil {
			reserve = asInt64(fr.get(instr.Reserve))
		}
		if !fitsInt(reserve, fr.i.sizes) {
			panic(fmt.Sprintf("ssa.MakeMap.Reserve value %d does not fit in int", reserve))
		}
		fr.env[instr] = makeMap(instr.Type().Underlying().(*types.Map).Key(), reserve)

	case *ssa.Range:
		fr.env[instr] = fr.i.rangeIter(fr.get(instr.X))

	case *ssa.Next:
		fr.env[instr] = fr.get(instr.Iter).(iter).next()

	case *ssa.FieldAddr:
		px := fr.get(instr.X).(*value)
		if px == nil {
			panic(runtimeErr("runtime error: invalid memory address or nil pointer dereference"))
		}
		fr.env[instr] = &(*px).(structure)[instr.Field]

	case *ssa.Field:
		fr.env[instr] = fr.get(instr.X).(structure)[instr.Field]

	case *ssa.IndexAddr:
		x := fr.get(instr.X)
		idx := fr.get(instr.Index)
		switch x := x.(type) {
		case []value:
			fr.env[instr] = &x[fr.i.boundedIndex(idx, len(x))]
		case *value: // *array
			if x == nil {
				panic(runtimeErr("runtime error: invalid memory address or nil pointer dereference"))
			}
			a := (*x).(array)
			fr.env[instr] = &a[fr.i.boundedIndex(idx, len(a))]
		default:
			panic(fmt.Sprintf("unexpected x type in IndexAddr: %T", x))
		}

	case *ssa.Index:
		x := fr.get(instr.X)
		idx := fr.get(instr.Index)

		switch x := x.(type) {
		case array:
			fr.env[instr] = fr.i.indexScalar([]value(x), idx)
		case string:
			if sv, ok := idx.(symv); ok {
				fr.env[instr] = fr.i.indexScalar(strBytes(x), sv)
			} else {
				fr.env[instr] = x[asInt64(idx)]
			}
		case symstr:
			fr.env[instr] = fr.i.indexScalar([]value(x), idx)
		default:
			panic(fmt.Sprintf("unexpected x type in Index: %T", x))
		}

	case *ssa.Lookup:
		fr.env[instr] = fr.i.lookup(instr, fr.get(instr.X), fr.get(instr.Index))

	case *ssa.MapUpdate:
		m := fr.get(instr.Map)
		key := fr.get(instr.Key)
		v := fr.get(instr.Value)
		switch m := m.(type) {
		case *omap:
			if m == nil {
				panic(runtimeErr("assignment to entry in nil map"))
			}
			fr.i.onMapWrite(fr, m)
			m.insert(fr.i, copyVal(key), copyVal(v))
		default:
			panic(fmt.Sprintf("illegal map type: %T", m))
		}

	case *ssa.TypeAssert:
		fr.env[instr] = typeAssert(instr, fr.get(instr.X).(iface))

	case *ssa.MakeClosure:
		var bindings []value
		for _, binding := range instr.Bindings {
			bindings = append(bindings, fr.get(binding))
		}
		fr.env[instr] = &closure{instr.Fn.(*ssa.Function), bindings}

	case *ssa.Phi:
		log.Fatal("unreachable") // phis are processed at block entry

	case *ssa.Select:
		var cases []selCase
		for _, state := range instr.States {
			sc := selCase{send: state.Dir != types.RecvOnly}
			sc.ch, _ = fr.get(state.Chan).(*schan)
			if sc.ch != nil && sc.ch.elem == nil {
				sc.ch.elem = state.Chan.Type().Underlying().(*types.Chan).Elem()
			}
			if state.Send != nil {
				sc.val = copyVal(fr.get(state.Send))
			}
			cases = append(cases, sc)
		}
		chosen, recv, recvOk := fr.i.sched.selectOp(cases, instr.Blocking)
		r := tuple{chosen, recvOk}
		for i, st := range instr.States {
			if st.Dir == types.RecvOnly {
				var v value
				if i == chosen && recvOk {
					v = recv
				} else {
					v = zero(st.Chan.Type().Underlying().(*types.Chan).Elem())
				}
				r = append(r, v)
			}
		}
		fr.env[instr] = r

	default:
		panic(fmt.Sprintf("unexpected instruction: %T", instr))
	}

	// if val, ok := instr.(ssa.Value); ok {
	// 	fmt.Println(toString(fr.env[val])) // debugging
	// }

	return kNext
}

// prepareCall determines the function value and argument values for a
// function call in a Call, Go or Defer instruction, performing
// interface method lookup if needed.
func prepareCall(fr *frame, call *ssa.CallCommon) (fn value, args []value) {
	v := fr.get(call.Value)
	if call.Method == nil {
		// Function call.
		fn = v
	} else {
		// Interface method invocation.
		recv := v.(iface)
		if recv.t == nil {
			panic(runtimeErr("runtime error: invalid memory address or nil pointer dereference (method invoked on nil interface)"))
		}
		if f := lookupMethod(fr.i, recv.t, call.Method); f == nil {
			// Unreachable in well-typed programs.
			panic(fmt.Sprintf("method set for dynamic type %v does not contain %s", recv.t, call.Method))
		} else {
			fn = f
		}
		args = append(args, recv.v)
	}
	for _, arg := range call.Args {
		args = append(args, fr.get(arg))
	}
	return
}

// call interprets a call to a function (function, builtin or closure)
// fn with arguments args, returning its result.
// callpos is the position of the callsite.
func call(i *interpreter, caller *frame, callpos token.Pos, fn value, args []value) value {
	switch fn := fn.(type) {
	case *ssa.Function:
		if fn == nil {
			panic("call of nil function") // nil of func type
		}
		return callSSA(i, caller, callpos, fn, args, nil)
	case *closure:
		return callSSA(i, caller, callpos, fn.Fn, args, fn.Env)
	case *ssa.Builtin:
		if caller == nil {
			caller = &frame{i: i}
		}
		return callBuiltin(caller, fn, args)
	case nativeFn:
		return fn(caller, args)
	}
	panic(fmt.Sprintf("cannot call %T", fn))
}

func loc(fset *token.FileSet, pos token.Pos) string {
	if pos == token.NoPos {
		return ""
	}
	return " at " + fset.Position(pos).String()
}

// callSSA interprets a call to function fn with arguments args,
// and lexical environment env, returning its result.
// callpos is the position of the callsite.
func callSSA(i *interpreter, caller *frame, callpos token.Pos, fn *ssa.Function, args []value, env []value) value {
	if i.mode&EnableTracing != 0 {
		fset := fn.Prog.Fset
		// TODO(adonovan): fix: loc() lies for external functions.
		fmt.Fprintf(os.Stderr, "Entering %s%s.\n", fn, loc(fset, fn.Pos()))
		suffix := ""
		if caller != nil {
			suffix = ", resuming " + caller.fn.String() + loc(fset, callpos)
		}
		defer fmt.Fprintf(os.Stderr, "Leaving %s%s.\n", fn, suffix)
	}
	fr := &frame{
		i:      i,
		caller: caller, // for panic/recover
		fn:     fn,
	}
	if caller != nil {
		fr.depth = caller.depth + 1
		if fr.depth > maxDepthSeen {
			maxDepthSeen = fr.depth
		}
		if fr.depth > maxCallDepth && i.path != nil && i.job != nil && !i.sched.aborting {
			// the target recurses without any bound of its own: natively the Go runtime ends the
			// process with "fatal error: stack overflow" (not recoverable)
			i.findingHere("panic", "stack-overflow", fmt.Sprintf("unbounded recursion: more than %d nested calls (natively: fatal error: stack overflow, the process dies) in %s", maxCallDepth, fn))
			i.abortReason = "end"
			panic(pathAbort{"end"})
		}
	}
	if ext := i.externalFor(fn); ext != nil {
		if i.mode&EnableTracing != 0 {
			fmt.Fprintln(os.Stderr, "\t(external)")
		}
		if r := ext(fr, args); r != notHandled {
			return r
		}
	}
	if fn.Blocks == nil {
		panic("no code for function: " + fn.String())
	}
	if fn.Pkg != nil && fn.Name() == "init" && fn.Parent() == nil && fn.Signature.Recv() == nil {
		if !i.initAllowed(fn.Pkg) {
			// run leniently: calls that cannot be interpreted yield zero values
			i.lenient++
			defer func() { i.lenient-- }()
		}
	}
	if !i.funcsSeen[fn] {
		i.funcsSeen[fn] = true
	}

	// generic function body?
	if fn.TypeParams().Len() > 0 && len(fn.TypeArgs()) == 0 {
		panic("interp requires ssa.BuilderMode to include InstantiateGenerics to execute generics")
	}

	fr.env = make(map[ssa.Value]value)
	fr.block = fn.Blocks[0]
	fr.locals = make([]value, len(fn.Locals))
	for i, l := range fn.Locals {
		fr.locals[i] = zero(mustDeref(l.Type()))
		fr.env[l] = &fr.locals[i]
	}
	for i, p := range fn.Params {
		fr.env[p] = args[i]
	}
	for i, fv := range fn.FreeVars {
		fr.env[fv] = env[i]
	}
	for fr.block != nil {
		runFrame(fr)
	}
	// Destroy the locals to avoid accidental use after return.
	for i := range fn.Locals {
		fr.locals[i] = bad{}
	}
	return fr.result
}

// runFrame executes SSA instructions starting at fr.block and
// continuing until a return, a panic, or a recovered panic.
//
// After a panic, runFrame panics.
//
// After a normal return, fr.result contains the result of the call
// and fr.block is nil.
//
// A recovered panic in a function without named return parameters
// (NRPs) becomes a normal return of the zero value of the function's
// result type.
//
// After a recovered panic in a function with NRPs, fr.result is
// undefined and fr.block contains the block at which to resume
// control.
func runFrame(fr *frame) {
	defer func() {
		if fr.block == nil {
			return // normal return
		}
		if fr.i.mode&DisableRecover != 0 {
			return // let interpreter crash
		}
		r := recover()
		if ab, ok := r.(pathAbort); ok {
			// engine control transfer: invisible to the target's defers
			panic(ab)
		}
		if r == nil {
			// runtime.Goexit-like or panic(nil): treat as abort
			panic(pathAbort{"unsupported: nil panic"})
		}
		if str, ok := r.(string); ok {
			// an engine-internal error (unsupported construct), never a target panic
			panic(pathAbort{"unsupported: " + str + " in " + fr.fn.String()})
		}
		fr.panicking = true
		fr.panic = r
		if fr.i.mode&EnableTracing != 0 {
			fmt.Fprintf(os.Stderr, "Panicking: %T %v.\n", fr.panic, fr.panic)
		}
		fr.runDefers()
		fr.block = fr.fn.Recover
	}()

	for {
		if fr.i.mode&EnableTracing != 0 {
			fmt.Fprintf(os.Stderr, ".%s:\n", fr.block)
		}

		nonPhis := executePhis(fr)
		p := fr.i.path
		p.steps += int64(len(nonPhis))
		if p.steps > p.maxSteps {
			fr.i.abortReason = "steps"
			panic(pathAbort{"steps"})
		}
		if sc := fr.i.sched; sc.quantum > 0 && p.steps >= sc.sliceEnd {
			sc.preempt()
		}
		for _, instr := range nonPhis {
			if fr.i.mode&EnableTracing != 0 {
				if v, ok := instr.(ssa.Value); ok {
					fmt.Fprintln(os.Stderr, "\t", v.Name(), "=", instr)
				} else {
					fmt.Fprintln(os.Stderr, "\t", instr)
				}
			}
			if visitInstr(fr, instr) == kReturn {
				return
			}
			// Inv: kNext (continue) or kJump (last instr)
		}
	}
}

// executePhis executes the phi-nodes at the start of the current
// block and returns the non-phi instructions.
func executePhis(fr *frame) []ssa.Instruction {
	firstNonPhi := -1
	for i, instr := range fr.block.Instrs {
		if _, ok := instr.(*ssa.Phi); !ok {
			firstNonPhi = i
			break
		}
	}
	// Inv: 0 <= firstNonPhi; every block contains a non-phi.

	nonPhis := fr.block.Instrs[firstNonPhi:]
	if firstNonPhi > 0 {
		phis := fr.block.Instrs[:firstNonPhi]
		// Execute parallel assignment of phis.
		//
		// See "the swap problem" in Briggs et al's "Practical Improvements
		// to the Construction and Destruction of SSA Form" for discussion.
		predIndex := slices.Index(fr.block.Preds, fr.prevBlock)
		fr.phitemps = fr.phitemps[:0]
		for _, phi := range phis {
			phi := phi.(*ssa.Phi)
			if fr.i.mode&EnableTracing != 0 {
				fmt.Fprintln(os.Stderr, "\t", phi.Name(), "=", phi)
			}
			fr.phitemps = append(fr.phitemps, fr.get(phi.Edges[predIndex]))
		}
		for i, phi := range phis {
			fr.env[phi.(*ssa.Phi)] = fr.phitemps[i]
		}
	}
	return nonPhis
}

// doRecover implements the recover() built-in.
func doRecover(caller *frame) value {
	// recover() must be exactly one level beneath the deferred
	// function (two levels beneath the panicking function) to
	// have any effect.  Thus we ignore both "defer recover()" and
	// "defer f() -> g() -> recover()".
	if caller.i.mode&DisableRecover == 0 &&
		caller != nil && !caller.panicking &&
		caller.caller != nil && caller.caller.panicking {
		caller.caller.panicking = false
		p := caller.caller.panic
		caller.caller.panic = nil

		// TODO(adonovan): support runtime.Goexit.
		switch p := p.(type) {
		case targetPanic:
			// The target program explicitly called panic().
			return p.v
		case runtimeErr:
			return iface{caller.i.runtimeErrorString, string(p)}
		case runtime.Error:
			// The interpreter encountered a runtime error.
			return iface{caller.i.runtimeErrorString, p.Error()}
		case string:
			// The interpreter explicitly called panic().
			return iface{caller.i.runtimeErrorString, p}
		default:
			panic(fmt.Sprintf("unexpected panic type %T in target call to recover()", p))
		}
	}
	return iface{}
}


// lenientCall is used while initialising packages that are outside the
// interpretable allow-list: a call that hits an unsupported construct yields
// the zero value of its type instead of ending the path.
func lenientCall(fr *frame, instr *ssa.Call) (res value) {
	defer func() {
		if r := recover(); r != nil {
			if ab, ok := r.(pathAbort); ok && len(ab.reason) >= 11 && ab.reason[:11] == "unsupported" {
				res = zero(instr.Type())
				return
			}
			if _, ok := r.(string); ok {
				res = zero(instr.Type())
				return
			}
			if _, ok := r.(runtime.Error); ok {
				res = zero(instr.Type())
				return
			}
			if _, ok := r.(runtimeErr); ok {
				res = zero(instr.Type())
				return
			}
			if _, ok := r.(targetPanic); ok {
				res = zero(instr.Type())
				return
			}
			panic(r)
		}
	}()
	fn, args := prepareCall(fr, &instr.Call)
	return call(fr.i, fr, instr.Pos(), fn, args)
}
