package interp

// Vector clocks and the happens-before race monitor (FastTrack-like, simplified:
// full vector for reads).

import "fmt"

type vclock []int32

func (v vclock) get(i int) int32 {
	if i < len(v) {
		return v[i]
	}
	return 0
}

func (v vclock) copyN(n int) vclock {
	if n < len(v) {
		n = len(v)
	}
	r := make(vclock, n)
	copy(r, v)
	return r
}

func (v vclock) inc(i int) vclock {
	r := v.copyN(i + 1)
	r[i]++
	return r
}

func (v vclock) join(o vclock) vclock {
	r := v.copyN(len(o))
	for i, x := range o {
		if x > r[i] {
			r[i] = x
		}
	}
	return r
}

// fork returns the child's initial clock; the caller should also tick the parent.
func (v vclock) fork(parent, child int) vclock {
	r := v.copyN(child + 1)
	r[child] = 1
	return r
}

// leq reports v ≤ o componentwise (v happens-before-or-equals o).
func (v vclock) leq(o vclock) bool {
	for i, x := range v {
		if x > o.get(i) {
			return false
		}
	}
	return true
}

type shadow struct {
	wG     int   // goroutine of last write (-1 none)
	wC     int32 // its clock component at the write
	wWhere string
	reads  map[int]int32 // goroutine -> clock component at last read
	rWhere map[int]string
}

type raceMonitor struct {
	on     bool
	cells  map[*value]*shadow
	seen   map[string]bool
	reports []string
}

func newRaceMonitor() *raceMonitor {
	return &raceMonitor{cells: map[*value]*shadow{}, seen: map[string]bool{}}
}

func (i *interpreter) raceAccess(addr *value, write bool, where func() string) {
	rm := i.race
	if rm == nil || !rm.on || addr == nil {
		return
	}
	g := i.sched.cur
	if g.vc.get(g.id) == 0 {
		g.vc = g.vc.inc(g.id)
	}
	sh := rm.cells[addr]
	if sh == nil {
		sh = &shadow{wG: -1}
		rm.cells[addr] = sh
	}
	report := func(kind string, og int, owhere string) {
		w := where()
		key := kind + "|" + w + "|" + owhere
		if rm.seen[key] {
			return
		}
		rm.seen[key] = true
		rm.reports = append(rm.reports, fmt.Sprintf("%s: g%d at %s vs g%d at %s", kind, g.id, w, og, owhere))
	}
	// write-X conflicts with previous write
	if sh.wG >= 0 && sh.wG != g.id && sh.wC > g.vc.get(sh.wG) {
		if write {
			report("write-write", sh.wG, sh.wWhere)
		} else {
			report("read-after-write", sh.wG, sh.wWhere)
		}
	}
	if write {
		for og, oc := range sh.reads {
			if og != g.id && oc > g.vc.get(og) {
				report("write-after-read", og, sh.rWhere[og])
			}
		}
		sh.wG = g.id
		sh.wC = g.vc.get(g.id)
		sh.wWhere = where()
		sh.reads = nil
		sh.rWhere = nil
	} else {
		if sh.reads == nil {
			sh.reads = map[int]int32{}
			sh.rWhere = map[int]string{}
		}
		sh.reads[g.id] = g.vc.get(g.id)
		sh.rWhere[g.id] = where()
	}
}
