package interp

// Insertion-ordered maps with symbolic-aware key equality.
//
// Go's randomised map iteration would change the branch sequence between two
// executions of the same path, so every Go map of the target is an omap: an
// association list in insertion order with an index for fully concrete keys.

import (
	"fmt"
	"go/types"
	"strconv"
	"strings"
)

type oentry struct {
	key     value
	val     value
	deleted bool
}

type omap struct {
	keyType types.Type
	entries []*oentry
	index   map[string]int // canonical key string -> position (concrete keys only)
	symKeys []int          // positions of entries whose key contains symbolic parts
	live    int
	rot     int // iteration rotation (job parameter), 0 = insertion order
}

func makeMap(kt types.Type, reserve int64) value {
	return &omap{keyType: kt, index: map[string]int{}}
}

// keyString returns a canonical string for a fully concrete comparable value.
func keyString(sb *strings.Builder, v value) bool {
	switch v := v.(type) {
	case bool:
		if v {
			sb.WriteString("T")
		} else {
			sb.WriteString("F")
		}
	case int:
		sb.WriteString("i" + strconv.FormatInt(int64(v), 10))
	case int8:
		sb.WriteString("i" + strconv.FormatInt(int64(v), 10))
	case int16:
		sb.WriteString("i" + strconv.FormatInt(int64(v), 10))
	case int32:
		sb.WriteString("i" + strconv.FormatInt(int64(v), 10))
	case int64:
		sb.WriteString("i" + strconv.FormatInt(v, 10))
	case uint:
		sb.WriteString("u" + strconv.FormatUint(uint64(v), 10))
	case uint8:
		sb.WriteString("u" + strconv.FormatUint(uint64(v), 10))
	case uint16:
		sb.WriteString("u" + strconv.FormatUint(uint64(v), 10))
	case uint32:
		sb.WriteString("u" + strconv.FormatUint(uint64(v), 10))
	case uint64:
		sb.WriteString("u" + strconv.FormatUint(v, 10))
	case uintptr:
		sb.WriteString("u" + strconv.FormatUint(uint64(v), 10))
	case float32:
		if v != v {
			return false
		}
		if v == 0 {
			v = 0
		}
		sb.WriteString("f" + strconv.FormatFloat(float64(v), 'g', -1, 32))
	case float64:
		if v != v {
			return false // NaN never equals itself: no index entry
		}
		if v == 0 {
			v = 0 // +0 == -0
		}
		sb.WriteString("f" + strconv.FormatFloat(v, 'g', -1, 64))
	case string:
		sb.WriteString("s" + strconv.Itoa(len(v)) + ":" + v)
	case *value:
		fmt.Fprintf(sb, "p%p", v)
	case *schan:
		fmt.Fprintf(sb, "c%p", v)
	case iface:
		if v.t == nil {
			sb.WriteString("nil")
			return true
		}
		sb.WriteString("I<" + v.t.String() + ">")
		return keyString(sb, v.v)
	case structure:
		sb.WriteString("{")
		for _, f := range v {
			if !keyString(sb, f) {
				return false
			}
			sb.WriteString(",")
		}
		sb.WriteString("}")
	case array:
		sb.WriteString("[")
		for _, f := range v {
			if !keyString(sb, f) {
				return false
			}
			sb.WriteString(",")
		}
		sb.WriteString("]")
	case rtype:
		sb.WriteString("rt<" + v.t.String() + ">")
	default:
		return false
	}
	return true
}

func concreteKey(v value) (string, bool) {
	if containsSym(v) {
		return "", false
	}
	var sb strings.Builder
	if !keyString(&sb, v) {
		return "", false
	}
	return sb.String(), true
}

// find returns the entry for key k (forking on symbolic equalities), or nil.
func (m *omap) find(i *interpreter, k value) *oentry {
	if m == nil {
		return nil
	}
	ks, conc := concreteKey(k)
	if conc {
		if pos, ok := m.index[ks]; ok {
			return m.entries[pos]
		}
		// entries with symbolic keys may still be equal
		for _, pos := range m.symKeys {
			e := m.entries[pos]
			if e.deleted {
				continue
			}
			if i.decide(i.equalsTerm(m.keyType, e.key, k)) {
				return e
			}
		}
		return nil
	}
	if !containsSym(k) {
		// concrete but not indexable (NaN, …): linear scan with Go equality
		for _, e := range m.entries {
			if !e.deleted && !containsSym(e.key) && equals(m.keyType, e.key, k) {
				return e
			}
		}
		return nil
	}
	for _, e := range m.entries {
		if e.deleted {
			continue
		}
		if i.decide(i.equalsTerm(m.keyType, e.key, k)) {
			return e
		}
	}
	return nil
}

func (m *omap) insert(i *interpreter, k, v value) {
	if e := m.find(i, k); e != nil {
		e.val = v
		return
	}
	pos := len(m.entries)
	m.entries = append(m.entries, &oentry{key: k, val: v})
	if ks, ok := concreteKey(k); ok {
		m.index[ks] = pos
	} else if containsSym(k) {
		m.symKeys = append(m.symKeys, pos)
	}
	m.live++
}

func (m *omap) delete(i *interpreter, k value) {
	if m == nil {
		return
	}
	if e := m.find(i, k); e != nil {
		e.deleted = true
		e.val = nil
		if ks, ok := concreteKey(e.key); ok {
			delete(m.index, ks)
		}
		m.live--
	}
}

func (m *omap) len() int {
	if m == nil {
		return 0
	}
	return m.live
}

type omapIter struct {
	m   *omap
	pos int
	n   int // number of entries at range start (later insertions may or may not be seen; we skip them)
	off int
}

func (it *omapIter) next() tuple {
	for it.pos < it.n {
		idx := it.pos
		if it.off != 0 && it.n > 0 {
			idx = (it.pos + it.off) % it.n
		}
		e := it.m.entries[idx]
		it.pos++
		if !e.deleted {
			return tuple{true, e.key, e.val}
		}
	}
	return tuple{false, nil, nil}
}

func (m *omap) iter(rot int) iter {
	if m == nil {
		return &omapIter{m: &omap{}, n: 0}
	}
	return &omapIter{m: m, n: len(m.entries), off: rot}
}
