package interp

// Exploration driver: program loading, per-worker interpreters, DFS over
// decision vectors by deterministic re-execution, aggregation of results.

import (
	"fmt"
	"go/token"
	"go/types"
	"os"
	"runtime"
	"sort"
	"strings"
	"sync"
	"time"

	"golang.org/x/tools/go/packages"
	"golang.org/x/tools/go/ssa"
	"golang.org/x/tools/go/ssa/ssautil"
)

type Config struct {
	Workers           int
	SolverTimeoutMs   int
	FallbackTimeoutMs int
	MaxStepsPerPath   int64
	DrainSteps        int64
	MaxPathsPerJob    int
	MaxGoroutines     int
	MaxConcretize     int
	MaxDepthDecisions int
	MapRotate         int
	SchedChoices      int   // scheduler choice points explored per path
	NumCPU            int   // value of runtime.NumCPU() in the target
	ClockStepNs       int64 // virtual nanoseconds added by every time.Now()
	CheckLeaks        bool  // quiescence monitor reports leaked goroutines
	Race              bool  // happens-before monitor
	Trace             bool
	TargetPrefixes    []string // import path prefixes whose globals are reset and whose init re-runs per path
	Deadline          time.Time
}

func DefaultConfig() *Config {
	return &Config{
		Workers:           runtime.NumCPU(),
		SolverTimeoutMs:   20000,
		FallbackTimeoutMs: 60000,
		MaxStepsPerPath:   20_000_000,
		DrainSteps:        2_000_000,
		MaxPathsPerJob:    20000,
		MaxGoroutines:     200,
		MaxConcretize:     64,
		NumCPU:            4,
		ClockStepNs:       0,
		CheckLeaks:        true,
		TargetPrefixes:    []string{"github.com/hneemann/", "verifharness"},
	}
}

// Job is one harness instance.
type Job struct {
	Harness string
	Param   string
	// per-job overrides (zero = config default)
	NumCPU       int
	ClockStepNs  int64
	SchedChoices int
	Race         bool
	NoLeakCheck  bool
	MaxSteps     int64
	Solver       string // primary solver for this job: "" / "z3" / "cvc5"
	MaxPaths     int      // path budget of this job (0 = config default)
	MaxDecisions int      // decisions per path; exceeding it counts as an exhausted step budget (0 = unlimited)
	Expect       []string // substrings of reach markers that some path must hit (else the job is vacuous)
	ExpectNot    []string // substrings of reach markers no path may hit (the job does not exercise what it says)
}

// PathSummary is kept for evidence samples.
type PathSummary struct {
	Harness   string   `json:"harness"`
	Job       string   `json:"job"`
	Decisions string   `json:"decisions"`
	Steps     int64    `json:"steps"`
	Status    string   `json:"status"`
	PC        []string `json:"path_condition,omitempty"`
	Notes     []string `json:"notes,omitempty"`
	Oblig     string   `json:"obligations,omitempty"`
}

type JobResult struct {
	Job        *Job
	Paths      int
	Decisions  int64
	Steps      int64
	OblConcrete, OblSyntactic, OblSolver, OblFailed, OblInconclusive int
	Findings   []*Finding
	Reached    map[string]bool
	Incomplete []string
	UnknownFeas int
	Samples    []PathSummary
	Aborted    map[string]int
	WallS      float64
	pending    int
	mu         sync.Mutex
	start      time.Time
}

type Program struct {
	Prog       *ssa.Program
	Pkgs       []*packages.Package
	HarnessPkg *ssa.Package
	EntryFn    *ssa.Function
	LoadS      float64
	BuildS     float64
	reflectOnce sync.Once
	rtypeMethods methodSet
	errorMethods methodSet
	reflectPackage *ssa.Package
}

// Load loads the harness package (and thereby /repo from its current working
// tree) and builds SSA with generics instantiated.
func Load(dir string, pattern string, overlay map[string][]byte, entry string) (*Program, error) {
	t0 := time.Now()
	cfg := &packages.Config{
		Mode:    packages.LoadAllSyntax,
		Dir:     dir,
		Overlay: overlay,
		Env:     append(os.Environ(), "GOFLAGS=-mod=mod", "GOPROXY=off"),
	}
	pkgs, err := packages.Load(cfg, pattern)
	if err != nil {
		return nil, err
	}
	nerr := 0
	var msgs []string
	packages.Visit(pkgs, nil, func(p *packages.Package) {
		for _, e := range p.Errors {
			nerr++
			if len(msgs) < 10 {
				msgs = append(msgs, e.Error())
			}
		}
	})
	if nerr > 0 {
		return nil, fmt.Errorf("package load errors: %s", strings.Join(msgs, "; "))
	}
	loadS := time.Since(t0).Seconds()
	t1 := time.Now()
	prog, spkgs := ssautil.AllPackages(pkgs, ssa.InstantiateGenerics)
	prog.Build()
	p := &Program{Prog: prog, Pkgs: pkgs, LoadS: loadS, BuildS: time.Since(t1).Seconds()}
	for k, sp := range spkgs {
		if sp != nil && pkgs[k].PkgPath != "" {
			p.HarnessPkg = sp
		}
	}
	if p.HarnessPkg == nil {
		return nil, fmt.Errorf("no harness package")
	}
	p.EntryFn = p.HarnessPkg.Func(entry)
	if p.EntryFn == nil {
		return nil, fmt.Errorf("entry function %s not found in %s", entry, p.HarnessPkg.Pkg.Path())
	}
	return p, nil
}

type workItem struct {
	jr     *JobResult
	prefix []Decision
}

type Explorer struct {
	P     *Program
	Cfg   *Config
	Stats SolverStats

	mu      sync.Mutex
	cond    *sync.Cond
	queue   []workItem
	active  int
	stopped bool

	Results   []*JobResult
	FuncsSeen map[string]bool
	fsMu      sync.Mutex
	Log       func(string)
}

func NewExplorer(p *Program, cfg *Config) *Explorer {
	e := &Explorer{P: p, Cfg: cfg, FuncsSeen: map[string]bool{}}
	e.cond = sync.NewCond(&e.mu)
	return e
}

// Run explores all jobs and returns their results.
func (e *Explorer) Run(jobs []*Job) []*JobResult {
	for _, j := range jobs {
		jr := &JobResult{Job: j, Reached: map[string]bool{}, Aborted: map[string]int{}, start: time.Now()}
		jr.pending = 1
		e.Results = append(e.Results, jr)
		e.queue = append(e.queue, workItem{jr: jr})
	}
	// explore jobs in order (DFS within a job: LIFO for alternatives)
	var wg sync.WaitGroup
	n := e.Cfg.Workers
	if n < 1 {
		n = 1
	}
	for w := 0; w < n; w++ {
		wg.Add(1)
		go func(id int) {
			defer wg.Done()
			e.worker(id)
		}(w)
	}
	wg.Wait()
	return e.Results
}

func (e *Explorer) next() (workItem, bool) {
	e.mu.Lock()
	defer e.mu.Unlock()
	for {
		if len(e.queue) > 0 {
			// take from the front the not yet started jobs, from the back alternatives:
			// simple strategy: LIFO keeps memory low and finishes jobs before starting new ones
			it := e.queue[len(e.queue)-1]
			e.queue = e.queue[:len(e.queue)-1]
			e.active++
			return it, true
		}
		if e.active == 0 {
			e.cond.Broadcast()
			return workItem{}, false
		}
		e.cond.Wait()
	}
}

func (e *Explorer) done(alts []workItem) {
	e.mu.Lock()
	e.queue = append(e.queue, alts...)
	e.active--
	e.mu.Unlock()
	e.cond.Broadcast()
}

func (e *Explorer) worker(id int) {
	i := e.newInterpreter()
	defer i.slv.close()
	defer func() {
		if debugSched {
			fmt.Fprintf(os.Stderr, "max call depth seen: %d\n", maxDepthSeen)
		}
	}()
	defer e.collectFuncs(i) // the functions of the target executed by this worker (evidence: functions encoded)
	for {
		it, ok := e.next()
		if !ok {
			return
		}
		var alts []workItem
		jr := it.jr
		skip := false
		jr.mu.Lock()
		maxPaths := e.Cfg.MaxPathsPerJob
		if jr.Job.MaxPaths > 0 {
			maxPaths = jr.Job.MaxPaths
		}
		if jr.Paths >= maxPaths {
			skip = true
			if len(jr.Incomplete) == 0 || !strings.HasPrefix(jr.Incomplete[0], "path budget") {
				jr.Incomplete = append([]string{fmt.Sprintf("path budget %d exhausted", maxPaths)}, jr.Incomplete...)
			}
		}
		if !e.Cfg.Deadline.IsZero() && time.Now().After(e.Cfg.Deadline) {
			skip = true
			if len(jr.Incomplete) == 0 || !strings.HasPrefix(jr.Incomplete[0], "deadline") {
				jr.Incomplete = append([]string{"deadline reached before all paths were explored"}, jr.Incomplete...)
			}
		}
		jr.mu.Unlock()
		if !skip {
			p := i.runPath(jr.Job, it.prefix)
			jr.mu.Lock()
			jr.Paths++
			jr.Decisions += int64(len(p.dec))
			jr.Steps += p.steps
			jr.OblConcrete += p.oblConcrete
			jr.OblSyntactic += p.oblSyntactic
			jr.OblSolver += p.oblSolver
			jr.OblFailed += p.oblFailed
			jr.OblInconclusive += p.oblInconclusive
			jr.UnknownFeas += p.unknownFeas
			jr.Findings = append(jr.Findings, p.findings...)
			for r := range p.reached {
				jr.Reached[r] = true
			}
			jr.Aborted[p.status]++
			if strings.HasPrefix(p.status, "incomplete") || strings.HasPrefix(p.status, "unsupported") {
				if len(jr.Incomplete) < 20 {
					jr.Incomplete = append(jr.Incomplete, p.status+" [path "+decString(p.dec)+"]")
				}
			}
			if len(jr.Samples) < 3 || (len(p.findings) > 0 && len(jr.Samples) < 8) {
				ps := PathSummary{Harness: jr.Job.Harness, Job: jr.Job.Param, Decisions: decString(p.dec), Steps: p.steps,
					Status: p.status, Notes: p.notes,
					Oblig: fmt.Sprintf("concrete=%d syntactic=%d solver=%d failed=%d inconclusive=%d",
						p.oblConcrete, p.oblSyntactic, p.oblSolver, p.oblFailed, p.oblInconclusive)}
				for k, t := range p.pc {
					if k >= 6 {
						ps.PC = append(ps.PC, fmt.Sprintf("… %d more", len(p.pc)-k))
						break
					}
					ps.PC = append(ps.PC, t.String())
				}
				jr.Samples = append(jr.Samples, ps)
			}
			jr.mu.Unlock()
			for _, a := range p.alts {
				alts = append(alts, workItem{jr: jr, prefix: a})
			}
		}
		jr.mu.Lock()
		jr.pending += len(alts) - 1
		if jr.pending == 0 {
			jr.WallS = time.Since(jr.start).Seconds()
			if e.Log != nil {
				e.Log(fmt.Sprintf("job %s/%s: %d paths, %d findings, %.1fs", jr.Job.Harness, jr.Job.Param, jr.Paths, len(jr.Findings), jr.WallS))
			}
		}
		jr.mu.Unlock()
		e.done(alts)
		// fresh term context per path would lose hash-consing across the pc of
		// one path only; reset it when it grows large
		if i.tc.n > 2_000_000 {
			i.tc = newTctx()
			i.slv.ctx = i.tc
			i.fpMemo = nil
		}
	}
	_ = id
}

func (e *Explorer) newInterpreter() *interpreter {
	p := e.P
	i := &interpreter{
		prog:      p.Prog,
		globals:   make(map[*ssa.Global]*value),
		sizes:     &types.StdSizes{WordSize: 8, MaxAlign: 8},
		cfg:       e.Cfg,
		tc:        newTctx(),
		stats:     &e.Stats,
		funcsSeen: map[*ssa.Function]bool{},
		initDone:  map[*ssa.Package]bool{},
	}
	i.slv = newSolver(i.tc, &e.Stats, e.Cfg.SolverTimeoutMs)
	if rp := p.Prog.ImportedPackage("runtime"); rp != nil {
		i.runtimeErrorString = rp.Type("errorString").Object().Type()
	}
	p.reflectOnce.Do(func() {
		initReflect(i)
		p.rtypeMethods, p.errorMethods, p.reflectPackage = i.rtypeMethods, i.errorMethods, i.reflectPackage
	})
	i.rtypeMethods, i.errorMethods, i.reflectPackage = p.rtypeMethods, p.errorMethods, p.reflectPackage
	for _, pkg := range p.Prog.AllPackages() {
		for _, m := range pkg.Members {
			if g, ok := m.(*ssa.Global); ok {
				cell := zero(mustDeref(g.Type()))
				i.globals[g] = &cell
			}
		}
	}
	// one-time initialisation of the standard library on this worker
	i.path = newPathState(nil, 1<<40)
	i.sched = newScheduler(i)
	i.syncTab = map[*value]*syncState{}
	i.job = &Job{}
	func() {
		defer func() {
			if r := recover(); r != nil {
				panic(fmt.Sprintf("std init failed: %v", r))
			}
		}()
		// initialise every non-target package the harness depends on by running
		// the harness init once (target packages are re-initialised per path)
		call(i, nil, token.NoPos, p.HarnessPkg.Func("init"), nil)
	}()
	e.collectFuncs(i)
	return i
}

func (e *Explorer) collectFuncs(i *interpreter) {
	e.fsMu.Lock()
	for f := range i.funcsSeen {
		if f.Pkg != nil && strings.HasPrefix(f.Pkg.Pkg.Path(), "github.com/hneemann/") {
			e.FuncsSeen[f.String()] = true
		} else if f.Pkg == nil && strings.Contains(f.String(), "github.com/hneemann/") {
			e.FuncsSeen[f.String()] = true
		}
	}
	e.fsMu.Unlock()
}

func (i *interpreter) isTarget(pkg *ssa.Package) bool {
	path := pkg.Pkg.Path()
	for _, pre := range i.cfg.TargetPrefixes {
		if strings.HasPrefix(path, pre) {
			return true
		}
	}
	return false
}

var initAllow = map[string]bool{
	"unicode": true, "unicode/utf8": true, "strings": true, "strconv": true, "bytes": true,
	"sort": true, "math": true, "math/bits": true, "slices": true, "unicode/utf16": true,
	"cmp": true, "iter": true, "maps": true, "internal/itoa": true, "errors": false,
	"encoding/hex": true, "encoding/base64": true, "html": true, "io": true,
	"internal/byteorder": true, "internal/stringslite": true,
}

func (i *interpreter) initAllowed(pkg *ssa.Package) bool {
	if i.isTarget(pkg) {
		return true
	}
	return initAllow[pkg.Pkg.Path()]
}

// resetTarget zeroes the globals of all target packages so that their
// initialisers run again for the next path.
func (i *interpreter) resetTarget() {
	for _, pkg := range i.prog.AllPackages() {
		if !i.isTarget(pkg) {
			continue
		}
		for _, m := range pkg.Members {
			if g, ok := m.(*ssa.Global); ok {
				*i.globals[g] = zero(mustDeref(g.Type()))
			}
		}
	}
}

// runPath executes one path of job following prefix.
func (i *interpreter) runPath(job *Job, prefix []Decision) (p *pathState) {
	maxSteps := i.cfg.MaxStepsPerPath
	if job.MaxSteps > 0 {
		maxSteps = job.MaxSteps
	}
	p = newPathState(prefix, maxSteps)
	i.path = p
	i.job = job
	i.abortReason = ""
	i.noFork = false
	i.schedChoicesUsed = 0
	i.syncTab = map[*value]*syncState{}
	i.hostCounters = map[string]int64{}
	i.sched = newScheduler(i)
	i.race = nil
	if job.Race || i.cfg.Race {
		i.race = newRaceMonitor()
	}
	i.slv.ctx = i.tc
	if want := job.Solver; (want == "" && i.slv.kind != "z3") || (want != "" && want != i.slv.kind) {
		i.slv.use(want)
	}
	if i.slv.dead {
		i.slv.close()
		i.slv.start()
	} else {
		i.slv.resetSession()
	}
	i.resetTarget()
	p.status = "ok"

	finished := false
	func() {
		defer func() {
			r := recover()
			if r == nil {
				return
			}
			switch r := r.(type) {
			case pathAbort:
				reason := r.reason
				if reason == "teardown" && i.abortReason != "" {
					reason = i.abortReason
				}
				switch {
				case reason == "assume" || reason == "infeasible" || reason == "end":
					if p.status == "ok" {
						p.status = reason
					}
				case reason == "steps":
					p.status = "incomplete: step budget exceeded"
					if i.job != nil {
						i.sched.aborting = false
						i.findingHere("steps", "steps", fmt.Sprintf("path exceeded the step budget of %d SSA instructions (or its decision budget) after %d steps and %d decisions", p.maxSteps, p.steps, len(p.dec)))
					}
				case reason == "deadlock":
					p.status = "deadlock"
				default:
					if p.status == "ok" {
						p.status = reason
					}
				}
			case targetPanic:
				p.status = "panic"
				i.findingHere("panic", "panic", "Go panic escaped the harness: "+toString(r.v))
			case runtimeErr:
				p.status = "panic"
				i.findingHere("panic", "panic", "Go runtime panic escaped the harness: "+string(r))
			case runtime.Error:
				p.status = "panic"
				i.findingHere("panic", "panic", "Go runtime panic escaped the harness: "+r.Error())
			default:
				p.status = fmt.Sprintf("unsupported: engine panic %v", r)
			}
		}()
		call(i, nil, token.NoPos, i.prog.ImportedPackage(i.harnessPath()).Func("init"), nil)
		call(i, nil, token.NoPos, i.entry(), []value{job.Harness, job.Param})
		finished = true
	}()

	// quiescence: let goroutines finish, report the ones that cannot
	if finished && !i.sched.aborting {
		func() {
			defer func() {
				if r := recover(); r != nil {
					if ab, ok := r.(pathAbort); ok {
						if !strings.HasPrefix(p.status, "incomplete") && ab.reason != "teardown" {
							p.status = ab.reason
						}
						return
					}
					p.status = fmt.Sprintf("unsupported: engine panic in drain %v", r)
				}
			}()
			i.noFork = true
			leaked, running := i.sched.drain(i.cfg.DrainSteps)
			if (len(leaked) > 0 || running) && i.cfg.CheckLeaks && !job.NoLeakCheck {
				var ds []string
				for _, g := range leaked {
					ds = append(ds, fmt.Sprintf("goroutine started at %s blocked on %s", g.createdAt, g.blockedOn))
				}
				sort.Strings(ds)
				what := "blocked forever"
				if running {
					what = fmt.Sprintf("still running after %d steps", i.cfg.DrainSteps)
				}
				i.sched.aborting = false
				i.findingHere("leak", "leak", what+": "+strings.Join(ds, "; "))
			}
		}()
	}
	if i.race != nil && len(i.race.reports) > 0 {
		for _, r := range i.race.reports {
			i.findingHere("race", "race", r)
		}
	}
	i.sched.teardown()
	return p
}

var theProgram *Program

func (i *interpreter) harnessPath() string { return theProgram.HarnessPkg.Pkg.Path() }
func (i *interpreter) entry() *ssa.Function { return theProgram.EntryFn }

// SetProgram registers the loaded program (one per process).
func SetProgram(p *Program) { theProgram = p }
