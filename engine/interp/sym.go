package interp

// Symbolic scalars and strings.

import (
	"fmt"
	"go/token"
	"go/types"
	"math"
	"unicode/utf8"
)

// symv is a symbolic scalar of Go basic kind k (types.Bool, types.Int, …, types.Float64).
type symv struct {
	t *term
	k types.BasicKind
}

// symstr is a string of concrete length whose bytes are uint8 or symv{BV8}.
// A symstr always contains at least one symbolic byte (see mkstr).
type symstr []value

func kindOf(v value) (types.BasicKind, bool) {
	switch v := v.(type) {
	case symv:
		return v.k, true
	case bool:
		return types.Bool, true
	case int:
		return types.Int, true
	case int8:
		return types.Int8, true
	case int16:
		return types.Int16, true
	case int32:
		return types.Int32, true
	case int64:
		return types.Int64, true
	case uint:
		return types.Uint, true
	case uint8:
		return types.Uint8, true
	case uint16:
		return types.Uint16, true
	case uint32:
		return types.Uint32, true
	case uint64:
		return types.Uint64, true
	case uintptr:
		return types.Uintptr, true
	case float32:
		return types.Float32, true
	case float64:
		return types.Float64, true
	}
	return 0, false
}

func kindSort(k types.BasicKind) tsort {
	switch k {
	case types.Bool:
		return sBool
	case types.Int8, types.Uint8:
		return sBV8
	case types.Int16, types.Uint16:
		return sBV16
	case types.Int32, types.Uint32:
		return sBV32
	case types.Int, types.Int64, types.Uint, types.Uint64, types.Uintptr:
		return sBV64
	case types.Float32:
		return sF32
	case types.Float64:
		return sF64
	}
	panic(fmt.Sprintf("kindSort %v", k))
}

func kindSigned(k types.BasicKind) bool {
	switch k {
	case types.Int, types.Int8, types.Int16, types.Int32, types.Int64:
		return true
	}
	return false
}

func kindIsFloat(k types.BasicKind) bool { return k == types.Float32 || k == types.Float64 }
func kindIsInt(k types.BasicKind) bool {
	switch k {
	case types.Int, types.Int8, types.Int16, types.Int32, types.Int64,
		types.Uint, types.Uint8, types.Uint16, types.Uint32, types.Uint64, types.Uintptr:
		return true
	}
	return false
}

// basicKindOfType returns the basic kind of a (named) basic type.
func basicKindOfType(t types.Type) (types.BasicKind, bool) {
	b, ok := t.Underlying().(*types.Basic)
	if !ok {
		return 0, false
	}
	k := b.Kind()
	switch k {
	case types.UntypedBool:
		k = types.Bool
	case types.UntypedInt:
		k = types.Int
	case types.UntypedRune:
		k = types.Int32
	case types.UntypedFloat:
		k = types.Float64
	}
	return k, true
}

// toTerm converts a concrete or symbolic scalar into a term.
func (c *tctx) toTerm(v value) *term {
	switch v := v.(type) {
	case symv:
		return v.t
	case bool:
		return c.tbool(v)
	case int:
		return c.konst(sBV64, uint64(v))
	case int8:
		return c.konst(sBV8, uint64(v))
	case int16:
		return c.konst(sBV16, uint64(v))
	case int32:
		return c.konst(sBV32, uint64(v))
	case int64:
		return c.konst(sBV64, uint64(v))
	case uint:
		return c.konst(sBV64, uint64(v))
	case uint8:
		return c.konst(sBV8, uint64(v))
	case uint16:
		return c.konst(sBV16, uint64(v))
	case uint32:
		return c.konst(sBV32, uint64(v))
	case uint64:
		return c.konst(sBV64, v)
	case uintptr:
		return c.konst(sBV64, uint64(v))
	case float32:
		return c.fconst32(v)
	case float64:
		return c.fconst64(v)
	}
	panic(fmt.Sprintf("toTerm: %T", v))
}

// fromTerm wraps a term as a value of kind k, concretising constants.
func fromTerm(t *term, k types.BasicKind) value {
	if !t.isConst() {
		return symv{t, k}
	}
	return constOfKind(t.cv, k)
}

func constOfKind(cv uint64, k types.BasicKind) value {
	switch k {
	case types.Bool:
		return cv != 0
	case types.Int:
		return int(cv)
	case types.Int8:
		return int8(cv)
	case types.Int16:
		return int16(cv)
	case types.Int32:
		return int32(cv)
	case types.Int64:
		return int64(cv)
	case types.Uint:
		return uint(cv)
	case types.Uint8:
		return uint8(cv)
	case types.Uint16:
		return uint16(cv)
	case types.Uint32:
		return uint32(cv)
	case types.Uint64:
		return cv
	case types.Uintptr:
		return uintptr(cv)
	case types.Float32:
		return math.Float32frombits(uint32(cv))
	case types.Float64:
		return math.Float64frombits(cv)
	}
	panic(fmt.Sprintf("constOfKind %v", k))
}

func isSym(v value) bool {
	switch v.(type) {
	case symv, symstr:
		return true
	}
	return false
}

// ---- strings ----

// mkstr normalises a byte sequence: all-concrete becomes a Go string.
func mkstr(bs []value) value {
	anySym := false
	for _, b := range bs {
		if _, ok := b.(symv); ok {
			anySym = true
			break
		}
	}
	if anySym {
		return symstr(bs)
	}
	buf := make([]byte, len(bs))
	for i, b := range bs {
		buf[i] = b.(uint8)
	}
	return string(buf)
}

func strBytes(v value) []value {
	switch v := v.(type) {
	case string:
		r := make([]value, len(v))
		for i := 0; i < len(v); i++ {
			r[i] = v[i]
		}
		return r
	case symstr:
		return []value(v)
	}
	panic(fmt.Sprintf("strBytes: %T", v))
}

func strLen(v value) int {
	switch v := v.(type) {
	case string:
		return len(v)
	case symstr:
		return len(v)
	}
	panic(fmt.Sprintf("strLen: %T", v))
}

// strEqTerm returns the term for a == b (strings).
func (i *interpreter) strEqTerm(a, b value) *term {
	c := i.tc
	if strLen(a) != strLen(b) {
		return c.tbool(false)
	}
	x, y := strBytes(a), strBytes(b)
	r := c.tbool(true)
	for k := range x {
		r = c.and(r, c.eq(c.toTerm(x[k]), c.toTerm(y[k])))
	}
	return r
}

// strLtTerm returns the term for a < b (bytewise lexicographic).
func (i *interpreter) strLtTerm(a, b value) *term {
	c := i.tc
	x, y := strBytes(a), strBytes(b)
	n := len(x)
	if len(y) < n {
		n = len(y)
	}
	// result if all first n bytes equal:
	r := c.tbool(len(x) < len(y))
	for k := n - 1; k >= 0; k-- {
		xb, yb := c.toTerm(x[k]), c.toTerm(y[k])
		r = c.ite(c.eq(xb, yb), r, c.bvcmp("bvult", xb, yb))
	}
	return r
}

// ---- symbolic binary operators ----

func (i *interpreter) symBinop(op token.Token, t types.Type, x, y value) value {
	c := i.tc
	// strings
	_, xs := x.(symstr)
	_, ys := y.(symstr)
	if xs || ys {
		switch op {
		case token.ADD:
			bs := append(append([]value{}, strBytes(x)...), strBytes(y)...)
			return mkstr(bs)
		case token.EQL:
			return fromTerm(i.strEqTerm(x, y), types.Bool)
		case token.NEQ:
			return fromTerm(c.not(i.strEqTerm(x, y)), types.Bool)
		case token.LSS:
			return fromTerm(i.strLtTerm(x, y), types.Bool)
		case token.GTR:
			return fromTerm(i.strLtTerm(y, x), types.Bool)
		case token.LEQ:
			return fromTerm(c.not(i.strLtTerm(y, x)), types.Bool)
		case token.GEQ:
			return fromTerm(c.not(i.strLtTerm(x, y)), types.Bool)
		}
		panic(fmt.Sprintf("symBinop: string op %v", op))
	}

	kx, okx := kindOf(x)
	ky, oky := kindOf(y)
	if !okx || !oky {
		// comparison of composite values that contain symbolic parts
		switch op {
		case token.EQL:
			return fromTerm(i.equalsTerm(t, x, y), types.Bool)
		case token.NEQ:
			return fromTerm(c.not(i.equalsTerm(t, x, y)), types.Bool)
		}
		panic(fmt.Sprintf("symBinop: %T %v %T", x, op, y))
	}
	tx, ty := c.toTerm(x), c.toTerm(y)

	if op == token.SHL || op == token.SHR {
		return i.symShift(op, kx, tx, ky, ty)
	}
	if kx != ky {
		panic(fmt.Sprintf("symBinop: kind mismatch %v %v (%v)", kx, ky, op))
	}
	k := kx
	switch {
	case k == types.Bool:
		switch op {
		case token.EQL:
			return fromTerm(c.eq(tx, ty), types.Bool)
		case token.NEQ:
			return fromTerm(c.not(c.eq(tx, ty)), types.Bool)
		case token.AND, token.LAND:
			return fromTerm(c.and(tx, ty), types.Bool)
		case token.OR, token.LOR:
			return fromTerm(c.or(tx, ty), types.Bool)
		}
	case kindIsFloat(k):
		switch op {
		case token.ADD:
			return fromTerm(c.fpbin("fp.add", tx, ty), k)
		case token.SUB:
			return fromTerm(c.fpbin("fp.sub", tx, ty), k)
		case token.MUL:
			return fromTerm(c.fpbin("fp.mul", tx, ty), k)
		case token.QUO:
			return fromTerm(c.fpbin("fp.div", tx, ty), k)
		case token.EQL:
			return fromTerm(c.fpcmp("fp.eq", tx, ty), types.Bool)
		case token.NEQ:
			return fromTerm(c.not(c.fpcmp("fp.eq", tx, ty)), types.Bool)
		case token.LSS:
			return fromTerm(c.fpcmp("fp.lt", tx, ty), types.Bool)
		case token.LEQ:
			return fromTerm(c.fpcmp("fp.leq", tx, ty), types.Bool)
		case token.GTR:
			return fromTerm(c.fpcmp("fp.gt", tx, ty), types.Bool)
		case token.GEQ:
			return fromTerm(c.fpcmp("fp.geq", tx, ty), types.Bool)
		}
	case kindIsInt(k):
		signed := kindSigned(k)
		switch op {
		case token.ADD:
			return fromTerm(c.bvbin("bvadd", tx, ty), k)
		case token.SUB:
			return fromTerm(c.bvbin("bvsub", tx, ty), k)
		case token.MUL:
			return fromTerm(c.bvbin("bvmul", tx, ty), k)
		case token.QUO, token.REM:
			// division by zero panics
			isZero := c.eq(ty, c.konst(ty.s, 0))
			if i.decide(isZero) {
				panic(runtimeErr("runtime error: integer divide by zero"))
			}
			var o string
			switch {
			case op == token.QUO && signed:
				o = "bvsdiv"
			case op == token.QUO:
				o = "bvudiv"
			case signed:
				o = "bvsrem"
			default:
				o = "bvurem"
			}
			return fromTerm(c.bvbin(o, tx, ty), k)
		case token.AND:
			return fromTerm(c.bvbin("bvand", tx, ty), k)
		case token.OR:
			return fromTerm(c.bvbin("bvor", tx, ty), k)
		case token.XOR:
			return fromTerm(c.bvbin("bvxor", tx, ty), k)
		case token.AND_NOT:
			return fromTerm(c.bvbin("bvand", tx, c.bvun("bvnot", ty)), k)
		case token.EQL:
			return fromTerm(c.eq(tx, ty), types.Bool)
		case token.NEQ:
			return fromTerm(c.not(c.eq(tx, ty)), types.Bool)
		case token.LSS:
			return fromTerm(c.bvcmp(pick(signed, "bvslt", "bvult"), tx, ty), types.Bool)
		case token.LEQ:
			return fromTerm(c.bvcmp(pick(signed, "bvsle", "bvule"), tx, ty), types.Bool)
		case token.GTR:
			return fromTerm(c.bvcmp(pick(signed, "bvsgt", "bvugt"), tx, ty), types.Bool)
		case token.GEQ:
			return fromTerm(c.bvcmp(pick(signed, "bvsge", "bvuge"), tx, ty), types.Bool)
		}
	}
	panic(fmt.Sprintf("symBinop: unsupported %v on kind %v", op, k))
}

func pick(c bool, a, b string) string {
	if c {
		return a
	}
	return b
}

// runtimeErr is the panic value for Go runtime errors raised by the engine
// on symbolic paths; doRecover turns it into a runtime.Error-like value.
type runtimeErr string

func (e runtimeErr) Error() string { return string(e) }
func (e runtimeErr) RuntimeError() {}

func (i *interpreter) symShift(op token.Token, kx types.BasicKind, tx *term, ky types.BasicKind, ty *term) value {
	c := i.tc
	w := tx.s.width()
	if kindSigned(ky) {
		neg := c.bvcmp("bvslt", ty, c.konst(ty.s, 0))
		if i.decide(neg) {
			panic(runtimeErr("runtime error: negative shift amount"))
		}
	}
	// bring the count to the width of x, saturating
	var cnt *term
	yw := ty.s.width()
	big := c.tbool(false)
	if yw > w {
		big = c.bvcmp("bvuge", ty, c.konst(ty.s, uint64(w)))
		cnt = c.resize(ty, w, false)
	} else {
		cnt = c.resize(ty, w, false)
		big = c.bvcmp("bvuge", cnt, c.konst(cnt.s, uint64(w)))
	}
	var r *term
	switch {
	case op == token.SHL:
		r = c.ite(big, c.konst(tx.s, 0), c.bvbin("bvshl", tx, cnt))
	case kindSigned(kx):
		r = c.ite(big, c.bvbin("bvashr", tx, c.konst(tx.s, uint64(w-1))), c.bvbin("bvashr", tx, cnt))
	default:
		r = c.ite(big, c.konst(tx.s, 0), c.bvbin("bvlshr", tx, cnt))
	}
	return fromTerm(r, kx)
}

func (i *interpreter) symUnop(op token.Token, x symv) value {
	c := i.tc
	switch op {
	case token.SUB:
		if kindIsFloat(x.k) {
			return fromTerm(c.fpun("fp.neg", x.t), x.k)
		}
		return fromTerm(c.bvun("bvneg", x.t), x.k)
	case token.NOT:
		return fromTerm(c.not(x.t), types.Bool)
	case token.XOR:
		return fromTerm(c.bvun("bvnot", x.t), x.k)
	}
	panic(fmt.Sprintf("symUnop %v", op))
}

// symConvNum converts a symbolic numeric scalar to basic kind dst.
func (i *interpreter) symConvNum(x symv, dst types.BasicKind) value {
	c := i.tc
	src := x.k
	switch {
	case kindIsInt(src) && kindIsInt(dst):
		return fromTerm(c.resize(x.t, kindSort(dst).width(), kindSigned(src)), dst)
	case kindIsInt(src) && kindIsFloat(dst):
		return fromTerm(c.intToFp(x.t, kindSigned(src), kindSort(dst)), dst)
	case kindIsFloat(src) && kindIsFloat(dst):
		return fromTerm(c.fpToFp(x.t, kindSort(dst)), dst)
	case kindIsFloat(src) && kindIsInt(dst):
		return fromTerm(c.fpToInt(x.t, kindSort(dst).width(), kindSigned(dst)), dst)
	case src == types.Bool && dst == types.Bool:
		return x
	}
	panic(fmt.Sprintf("symConvNum %v -> %v", src, dst))
}

// runeToStr implements string(rune) for a symbolic rune: forks on the UTF-8 length class.
func (i *interpreter) runeToStr(x symv) value {
	c := i.tc
	r := c.resize(x.t, 32, kindSigned(x.k))
	k32 := func(v uint32) *term { return c.konst(sBV32, uint64(v)) }
	b8 := func(t *term) value { return fromTerm(c.resize(t, 8, false), types.Uint8) }
	shr := func(t *term, n uint32) *term { return c.bvbin("bvlshr", t, k32(n)) }
	or := func(t *term, v uint32) *term { return c.bvbin("bvor", t, k32(v)) }
	and := func(t *term, v uint32) *term { return c.bvbin("bvand", t, k32(v)) }
	// invalid: surrogates or > 0x10FFFF (as unsigned) -> U+FFFD
	invalid := c.or(c.bvcmp("bvugt", r, k32(0x10FFFF)),
		c.and(c.bvcmp("bvuge", r, k32(0xD800)), c.bvcmp("bvule", r, k32(0xDFFF))))
	if i.decide(invalid) {
		return "�"
	}
	if i.decide(c.bvcmp("bvult", r, k32(0x80))) {
		return mkstr([]value{b8(r)})
	}
	if i.decide(c.bvcmp("bvult", r, k32(0x800))) {
		return mkstr([]value{b8(or(shr(r, 6), 0xC0)), b8(or(and(r, 0x3F), 0x80))})
	}
	if i.decide(c.bvcmp("bvult", r, k32(0x10000))) {
		return mkstr([]value{b8(or(shr(r, 12), 0xE0)), b8(or(and(shr(r, 6), 0x3F), 0x80)), b8(or(and(r, 0x3F), 0x80))})
	}
	return mkstr([]value{b8(or(shr(r, 18), 0xF0)), b8(or(and(shr(r, 12), 0x3F), 0x80)),
		b8(or(and(shr(r, 6), 0x3F), 0x80)), b8(or(and(r, 0x3F), 0x80))})
}

// decodeRune decodes the first rune of bs (bytes possibly symbolic) exactly
// like utf8.DecodeRune, forking on the byte classes.  Returns the rune value and size.
func (i *interpreter) decodeRune(bs []value) (value, int) {
	if len(bs) == 0 {
		return int32(utf8.RuneError), 0
	}
	// fast path: all bytes the decoder would look at are concrete
	if b0, ok := bs[0].(uint8); ok {
		need := 1
		switch {
		case b0 >= 0xF0:
			need = 4
		case b0 >= 0xE0:
			need = 3
		case b0 >= 0xC0:
			need = 2
		}
		if need > len(bs) {
			need = len(bs)
		}
		buf := make([]byte, 0, 4)
		for k := 0; k < need; k++ {
			b, ok := bs[k].(uint8)
			if !ok {
				buf = nil
				break
			}
			buf = append(buf, b)
		}
		if buf != nil {
			r, n := utf8.DecodeRune(buf)
			return r, n
		}
	}
	c := i.tc
	k8 := func(v uint8) *term { return c.konst(sBV8, uint64(v)) }
	in := func(b *term, lo, hi uint8) *term {
		return c.and(c.bvcmp("bvuge", b, k8(lo)), c.bvcmp("bvule", b, k8(hi)))
	}
	ext := func(b *term) *term { return c.resize(b, 32, false) }
	k32 := func(v uint32) *term { return c.konst(sBV32, uint64(v)) }
	b0 := c.toTerm(bs[0])
	if i.decide(c.bvcmp("bvult", b0, k8(0x80))) {
		return fromTerm(ext(b0), types.Int32), 1
	}
	bad := func() (value, int) { return int32(utf8.RuneError), 1 }
	// lead byte classes per unicode/utf8 tables
	type cls struct {
		lo, hi   uint8 // lead range
		n        int
		l1, h1   uint8 // accept range of second byte
		leadMask uint32
	}
	classes := []cls{
		{0xC2, 0xDF, 2, 0x80, 0xBF, 0x1F},
		{0xE0, 0xE0, 3, 0xA0, 0xBF, 0x0F},
		{0xE1, 0xEC, 3, 0x80, 0xBF, 0x0F},
		{0xED, 0xED, 3, 0x80, 0x9F, 0x0F},
		{0xEE, 0xEF, 3, 0x80, 0xBF, 0x0F},
		{0xF0, 0xF0, 4, 0x90, 0xBF, 0x07},
		{0xF1, 0xF3, 4, 0x80, 0xBF, 0x07},
		{0xF4, 0xF4, 4, 0x80, 0x8F, 0x07},
	}
	for _, cl := range classes {
		if !i.decide(in(b0, cl.lo, cl.hi)) {
			continue
		}
		if len(bs) < cl.n {
			return bad()
		}
		b1 := c.toTerm(bs[1])
		if !i.decide(in(b1, cl.l1, cl.h1)) {
			return bad()
		}
		r := c.bvbin("bvor",
			c.bvbin("bvshl", c.bvbin("bvand", ext(b0), k32(cl.leadMask)), k32(6)),
			c.bvbin("bvand", ext(b1), k32(0x3F)))
		for k := 2; k < cl.n; k++ {
			bk := c.toTerm(bs[k])
			if !i.decide(in(bk, 0x80, 0xBF)) {
				return bad()
			}
			r = c.bvbin("bvor", c.bvbin("bvshl", r, k32(6)), c.bvbin("bvand", ext(bk), k32(0x3F)))
		}
		return fromTerm(r, types.Int32), cl.n
	}
	return bad()
}

// symStrIter ranges over a symbolic string.
type symStrIter struct {
	i   *interpreter
	bs  []value
	pos int
}

func (it *symStrIter) next() tuple {
	okv := make(tuple, 3)
	if it.pos >= len(it.bs) {
		okv[0] = false
		return okv
	}
	r, n := it.i.decodeRune(it.bs[it.pos:])
	okv[0] = true
	okv[1] = it.pos
	okv[2] = r
	it.pos += n
	return okv
}

// equalsTerm builds the equality formula of two values of type t that may
// contain symbolic scalars (used for ==, map keys, switch on interfaces).
func (i *interpreter) equalsTerm(t types.Type, x, y value) *term {
	c := i.tc
	switch xv := x.(type) {
	case symv:
		ty := c.toTerm(y)
		if xv.t.s.isFP() {
			return c.fpcmp("fp.eq", xv.t, ty)
		}
		return c.eq(xv.t, ty)
	case symstr:
		return i.strEqTerm(x, y)
	case iface:
		yv := y.(iface)
		if !sameType(xv.t, yv.t) {
			return c.tbool(false)
		}
		if xv.t == nil {
			return c.tbool(true)
		}
		return i.equalsTerm(xv.t, xv.v, yv.v)
	case structure:
		yv := y.(structure)
		st := t.Underlying().(*types.Struct)
		r := c.tbool(true)
		for k := 0; k < st.NumFields(); k++ {
			if f := st.Field(k); !f.Anonymous() || true {
				r = c.and(r, i.equalsTerm(f.Type(), xv[k], yv[k]))
			}
		}
		return r
	case array:
		yv := y.(array)
		et := t.Underlying().(*types.Array).Elem()
		r := c.tbool(true)
		for k := range xv {
			r = c.and(r, i.equalsTerm(et, xv[k], yv[k]))
		}
		return r
	}
	switch yv := y.(type) {
	case symv:
		tx := c.toTerm(x)
		if yv.t.s.isFP() {
			return c.fpcmp("fp.eq", tx, yv.t)
		}
		return c.eq(tx, yv.t)
	case symstr:
		return i.strEqTerm(x, y)
	}
	return c.tbool(equals(t, x, y))
}

// containsSym reports whether a comparable value contains symbolic parts.
func containsSym(v value) bool {
	switch v := v.(type) {
	case symv, symstr:
		return true
	case iface:
		return containsSym(v.v)
	case structure:
		for _, f := range v {
			if containsSym(f) {
				return true
			}
		}
	case array:
		for _, f := range v {
			if containsSym(f) {
				return true
			}
		}
	}
	return false
}
