package interp

// Deterministic baton scheduler with the engine's own channels, select,
// sync.Mutex/WaitGroup/Once, virtual time, quiescence (leak) monitor.
//
// Every interpreted goroutine runs on a host goroutine, but only the holder
// of the baton executes.  A goroutine runs until it blocks or ends; then the
// runnable goroutine with the lowest id continues (main, id 0, has the lowest
// priority once the harness has returned and the engine drains).

import (
	"fmt"
	"os"
	"go/token"
	"go/types"
	"sort"
)

type gstate int

const (
	gRunnable gstate = iota
	gRunning
	gBlocked
	gDone
)

type goroutine struct {
	id        int
	wake      chan struct{}
	state     gstate
	blockedOn string
	createdAt string
	steps     int64
	vc        vclock
	sel       *selWait
	selIdx    int
	recvVal   value
	recvOK    bool
}

type schan struct {
	id     int
	cap    int
	buf    []value
	closed bool
	recvq  []*waiter
	sendq  []*waiter
	vc     vclock
	elem   types.Type
}

type waiter struct {
	g    *goroutine
	val  value // for senders
	sel  *selWait
	idx  int // case index within select
	done bool
}

type selWait struct {
	fired bool
}

type vtimer struct {
	at int64
	ch *schan
	g  *goroutine // for Sleep
}

type scheduler struct {
	i        *interpreter
	gs       []*goroutine
	cur      *goroutine
	main     *goroutine
	now      int64 // virtual nanoseconds
	timers   []*vtimer
	aborting bool
	draining bool
	nchan    int
	gpanic   []string // panics that killed non-main goroutines
	yielded  []*goroutine
	quantum  int64 // >0: preemptive time slices of this many steps
	sliceEnd int64
	rotate   int // id of the goroutine preempted last (round robin)
}

func newScheduler(i *interpreter) *scheduler {
	s := &scheduler{i: i}
	g := &goroutine{id: 0, wake: make(chan struct{}, 1), state: gRunning}
	s.gs = []*goroutine{g}
	s.cur = g
	s.main = g
	s.now = 1_700_000_000_000_000_000
	return s
}

// pickNext returns the runnable goroutine to run next, or nil.
func (s *scheduler) pickNext() *goroutine {
	var cand []*goroutine
	for _, g := range s.gs {
		if g.state == gRunnable && !(s.draining && g == s.main) {
			cand = append(cand, g)
		}
	}
	if len(cand) == 0 && len(s.yielded) > 0 {
		for _, g := range s.yielded {
			if g.state == gBlocked && g.blockedOn == "yield" {
				g.state = gRunnable
				if !(s.draining && g == s.main) {
					cand = append(cand, g)
				}
			}
		}
		s.yielded = nil
	}
	if len(cand) == 0 {
		if s.draining && s.main.state == gRunnable {
			return s.main
		}
		return nil
	}
	if s.quantum > 0 && len(cand) > 1 {
		// round robin: first candidate with an id above the one preempted last
		for _, g := range cand {
			if g.id > s.rotate {
				return g
			}
		}
		return cand[0]
	}
	if len(cand) > 1 && s.i.schedChoicesUsed < s.i.schedBudget() {
		s.i.schedChoicesUsed++
		return cand[s.i.chooseN(len(cand))]
	}
	return cand[0]
}

// fireTimer advances virtual time to the earliest timer; false if none.
func (s *scheduler) fireTimer() bool {
	if len(s.timers) == 0 {
		return false
	}
	sort.SliceStable(s.timers, func(a, b int) bool { return s.timers[a].at < s.timers[b].at })
	t := s.timers[0]
	s.timers = s.timers[1:]
	if t.at > s.now {
		s.now = t.at
	}
	if t.g != nil {
		if t.g.state == gBlocked {
			t.g.state = gRunnable
		}
		return true
	}
	// time.After channel (buffered, cap 1): never blocks
	s.chanSendNB(t.ch, structure{uint64(0), int64(s.now), (*value)(nil)})
	return true
}

// park blocks the current goroutine until it is made runnable and scheduled again.
func (s *scheduler) park(why string) {
	me := s.cur
	me.state = gBlocked
	me.blockedOn = why
	s.reschedule(me)
}

// yield gives other runnable goroutines a chance (Gosched): the caller runs
// again only after the others have blocked, finished or been preempted.
func (s *scheduler) yield() {
	me := s.cur
	others := false
	for _, g := range s.gs {
		if g != me && g.state == gRunnable {
			others = true
		}
	}
	if !others {
		return
	}
	me.state = gBlocked
	me.blockedOn = "yield"
	s.yielded = append(s.yielded, me)
	s.reschedule(me)
}

// preempt is called at block boundaries when a time slice is active.
func (s *scheduler) preempt() {
	s.sliceEnd = s.i.path.steps + s.quantum
	// everybody who yielded becomes runnable again
	for _, g := range s.yielded {
		if g.state == gBlocked && g.blockedOn == "yield" {
			g.state = gRunnable
		}
	}
	s.yielded = nil
	me := s.cur
	me.state = gRunnable
	s.rotate = me.id
	s.reschedule(me)
}

// reschedule hands the baton to the next goroutine and waits until me runs again.
func (s *scheduler) reschedule(me *goroutine) {
	for {
		next := s.pickNext()
		if next == nil {
			if s.fireTimer() {
				continue
			}
			// nothing can run
			if s.draining {
				next = s.main // main decides (leak report)
				s.main.state = gRunnable
			} else {
				// deadlock while the harness is still active
				s.i.path.status = "deadlock"
				s.i.findingHere("deadlock", "deadlock", "all goroutines are blocked: "+s.describeBlocked())
				s.aborting = true
				if me == s.main {
					panic(pathAbort{"deadlock"})
				}
				next = s.main
			}
		}
		if next == me {
			me.state = gRunning
			s.cur = me
			return
		}
		next.state = gRunning
		s.cur = next
		next.wake <- struct{}{}
		break
	}
	if me.state == gDone {
		return
	}
	<-me.wake
	if s.aborting {
		panic(pathAbort{"teardown"})
	}
	me.state = gRunning
	s.cur = me
}

func (s *scheduler) describeBlocked() string {
	out := ""
	for _, g := range s.gs {
		if g.state == gBlocked {
			out += fmt.Sprintf("g%d(%s) on %s; ", g.id, g.createdAt, g.blockedOn)
		}
	}
	return out
}

// spawn starts an interpreted goroutine.
func (s *scheduler) spawn(fn value, args []value, pos string) {
	live := 0
	for _, g := range s.gs {
		if g.state != gDone {
			live++
		}
	}
	if live > s.i.cfg.MaxGoroutines {
		s.i.incomplete("goroutine budget exceeded")
	}
	g := &goroutine{id: len(s.gs), wake: make(chan struct{}, 1), state: gRunnable, createdAt: pos}
	if s.cur.vc.get(s.cur.id) == 0 {
		s.cur.vc = s.cur.vc.inc(s.cur.id)
	}
	g.vc = s.cur.vc.fork(s.cur.id, g.id)
	s.cur.vc = s.cur.vc.inc(s.cur.id) // what the parent does after the go statement is not ordered before the child
	s.gs = append(s.gs, g)
	if debugSched {
		fmt.Fprintf(os.Stderr, "spawn g%d by g%d at %s (t=%d)\n", g.id, s.cur.id, pos, s.now)
	}
	i := s.i
	go func() {
		<-g.wake
		defer func() {
			r := recover()
			g.state = gDone
			if r != nil {
				if _, ok := r.(pathAbort); ok {
					s.aborting = true
					if ab := r.(pathAbort); ab.reason != "teardown" && i.abortReason == "" {
						i.abortReason = ab.reason
					}
				} else if !s.aborting {
					// a target panic killed this goroutine: fatal for a real process
					msg := panicString(r)
					s.gpanic = append(s.gpanic, msg)
					i.findingHere("goroutine-panic", "goroutine-panic",
						fmt.Sprintf("unrecovered panic on goroutine started at %s: %s", g.createdAt, msg))
				}
			}
			if s.aborting {
				// give control back to main, which unwinds and tears down
				s.cur = s.main
				s.main.wake <- struct{}{}
				return
			}
			s.reschedule(g)
		}()
		if s.aborting {
			panic(pathAbort{"teardown"})
		}
		call(i, nil, token.NoPos, fn, args)
	}()
}

func panicString(r any) string {
	switch p := r.(type) {
	case targetPanic:
		return toString(p.v)
	case error:
		return p.Error()
	case string:
		return p
	}
	return fmt.Sprintf("%v", r)
}

// drain runs after the harness returned: lets all other goroutines finish.
// It returns the goroutines that did not terminate.
func (s *scheduler) drain(stepBudget int64) (leaked []*goroutine, running bool) {
	s.draining = true
	me := s.main
	start := s.i.path.steps
	s.i.path.maxSteps = start + stepBudget
	for {
		any := false
		for _, g := range s.gs {
			if g != me && g.state == gRunnable {
				any = true
			}
		}
		if !any {
			// virtual time may unblock someone (time.After); fire pending timers
			if len(s.timers) > 0 && s.fireTimer() {
				continue
			}
			break
		}
		me.state = gRunnable
		func() {
			defer func() {
				if r := recover(); r != nil {
					if ab, ok := r.(pathAbort); ok && (ab.reason == "steps" || s.i.abortReason == "steps") {
						running = true
						return
					}
					panic(r)
				}
			}()
			s.reschedule(me)
		}()
		if running {
			break
		}
	}
	for _, g := range s.gs {
		if g != me && g.state != gDone {
			leaked = append(leaked, g)
		}
	}
	return
}

// teardown ends all parked goroutines of the path.
func (s *scheduler) teardown() {
	s.aborting = true
	me := s.main
	for _, g := range s.gs {
		if g == me || g.state == gDone {
			continue
		}
		s.cur = g
		g.wake <- struct{}{}
		<-me.wake
	}
}

// ---- channels ----

func (s *scheduler) newChan(capacity int, elem types.Type) *schan {
	s.nchan++
	return &schan{id: s.nchan, cap: capacity, elem: elem}
}

func (s *scheduler) wakeG(g *goroutine) {
	if g.state == gBlocked {
		g.state = gRunnable
	}
}

// dequeue pops the first live waiter.
func dequeue(q *[]*waiter) *waiter {
	for len(*q) > 0 {
		w := (*q)[0]
		*q = (*q)[1:]
		if w.done {
			continue
		}
		if w.sel != nil {
			if w.sel.fired {
				continue
			}
			w.sel.fired = true
		}
		w.done = true
		return w
	}
	return nil
}

func hasLive(q []*waiter) bool {
	for _, w := range q {
		if !w.done && (w.sel == nil || !w.sel.fired) {
			return true
		}
	}
	return false
}

// chanSendNB tries to send without blocking.
func (s *scheduler) chanSendNB(c *schan, v value) bool {
	if c.closed {
		panic(targetPanic{iface{s.i.runtimeErrorString, "send on closed channel"}})
	}
	if w := dequeue(&c.recvq); w != nil {
		w.g.recvVal, w.g.recvOK = v, true
		w.g.selIdx = w.idx
		w.g.vc = w.g.vc.join(s.cur.vc)
		s.cur.vc = s.cur.vc.join(w.g.vc) // unbuffered rendezvous synchronises both ways
		s.tick()
		w.g.vc = w.g.vc.inc(w.g.id) // what either side does afterwards is not ordered before the other
		s.wakeG(w.g)
		return true
	}
	if len(c.buf) < c.cap {
		c.buf = append(c.buf, v)
		c.vc = c.vc.join(s.cur.vc)
		s.tick()
		return true
	}
	return false
}

func (s *scheduler) tick() {
	if s.cur != nil {
		s.cur.vc = s.cur.vc.inc(s.cur.id)
	}
}

func (s *scheduler) chanSend(c *schan, v value) {
	if c == nil {
		s.park("send on nil channel")
		panic("unreachable: woke from nil channel send")
	}
	if s.chanSendNB(c, v) {
		return
	}
	me := s.cur
	w := &waiter{g: me, val: v}
	c.sendq = append(c.sendq, w)
	me.selIdx = -1
	s.park(fmt.Sprintf("chan send #%d", c.id))
	if !w.done {
		panic("scheduler: sender woke without hand-off")
	}
	if me.selIdx == -2 {
		panic(targetPanic{iface{s.i.runtimeErrorString, "send on closed channel"}})
	}
}

// chanRecvNB tries to receive without blocking: (value, ok, done).
func (s *scheduler) chanRecvNB(c *schan) (value, bool, bool) {
	if len(c.buf) > 0 {
		v := c.buf[0]
		c.buf = c.buf[1:]
		s.cur.vc = s.cur.vc.join(c.vc)
		if w := dequeue(&c.sendq); w != nil {
			c.buf = append(c.buf, w.val)
			c.vc = c.vc.join(w.g.vc)
			w.g.vc = w.g.vc.inc(w.g.id)
			w.g.selIdx = w.idx
			w.g.recvOK = true
			s.wakeG(w.g)
		}
		return v, true, true
	}
	if w := dequeue(&c.sendq); w != nil {
		s.cur.vc = s.cur.vc.join(w.g.vc)
		w.g.vc = w.g.vc.join(s.cur.vc)
		s.tick()
		w.g.vc = w.g.vc.inc(w.g.id)
		w.g.selIdx = w.idx
		w.g.recvOK = true
		s.wakeG(w.g)
		return w.val, true, true
	}
	if c.closed {
		s.cur.vc = s.cur.vc.join(c.vc)
		return zero(c.elem), false, true
	}
	return nil, false, false
}

func (s *scheduler) chanRecv(c *schan) (value, bool) {
	if c == nil {
		s.park("receive on nil channel")
		panic("unreachable: woke from nil channel receive")
	}
	if v, ok, done := s.chanRecvNB(c); done {
		return v, ok
	}
	me := s.cur
	w := &waiter{g: me}
	c.recvq = append(c.recvq, w)
	s.park(fmt.Sprintf("chan receive #%d", c.id))
	return me.recvVal, me.recvOK
}

func (s *scheduler) chanClose(c *schan) {
	if c == nil {
		panic(targetPanic{iface{s.i.runtimeErrorString, "close of nil channel"}})
	}
	if c.closed {
		panic(targetPanic{iface{s.i.runtimeErrorString, "close of closed channel"}})
	}
	c.closed = true
	c.vc = c.vc.join(s.cur.vc)
	s.tick()
	for {
		w := dequeue(&c.recvq)
		if w == nil {
			break
		}
		w.g.recvVal, w.g.recvOK = zero(c.elem), false
		w.g.selIdx = w.idx
		w.g.vc = w.g.vc.join(c.vc)
		s.wakeG(w.g)
	}
	for {
		w := dequeue(&c.sendq)
		if w == nil {
			break
		}
		// blocked senders panic
		w.g.selIdx = -2
		w.g.recvOK = false
		s.wakeG(w.g)
	}
}

type selCase struct {
	send bool
	ch   *schan
	val  value
}

// selectOp implements select; returns (chosen index or -1 for default, recv value, recvOK).
func (s *scheduler) selectOp(cases []selCase, blocking bool) (int, value, bool) {
	// ready cases
	var ready []int
	for k, c := range cases {
		if c.ch == nil {
			continue
		}
		if c.send {
			if c.ch.closed || hasLive(c.ch.recvq) || len(c.ch.buf) < c.ch.cap {
				ready = append(ready, k)
			}
		} else {
			if len(c.ch.buf) > 0 || hasLive(c.ch.sendq) || c.ch.closed {
				ready = append(ready, k)
			}
		}
	}
	if len(ready) > 0 {
		k := ready[0]
		if len(ready) > 1 && s.i.schedChoicesUsed < s.i.schedBudget() {
			s.i.schedChoicesUsed++
			k = ready[s.i.chooseN(len(ready))]
		}
		c := cases[k]
		if c.send {
			if !s.chanSendNB(c.ch, c.val) {
				panic("scheduler: ready send case failed")
			}
			return k, nil, false
		}
		v, ok, done := s.chanRecvNB(c.ch)
		if !done {
			panic("scheduler: ready recv case failed")
		}
		return k, v, ok
	}
	if !blocking {
		return -1, nil, false
	}
	me := s.cur
	sw := &selWait{}
	live := false
	for k, c := range cases {
		if c.ch == nil {
			continue
		}
		live = true
		w := &waiter{g: me, sel: sw, idx: k, val: c.val}
		if c.send {
			c.ch.sendq = append(c.ch.sendq, w)
		} else {
			c.ch.recvq = append(c.ch.recvq, w)
		}
	}
	_ = live
	me.selIdx = -1
	s.park("select")
	k := me.selIdx
	if k == -2 {
		panic(targetPanic{iface{s.i.runtimeErrorString, "send on closed channel"}})
	}
	if k < 0 {
		panic("scheduler: select woke without a fired case")
	}
	if cases[k].send {
		return k, nil, false
	}
	return k, me.recvVal, me.recvOK
}

// ---- sync primitives (state kept in side tables keyed by the object's address) ----

type syncState struct {
	locked  bool
	rlocks  int
	waiters []*goroutine
	count   int64 // WaitGroup counter
	done    bool  // Once
	vc      vclock
}

func (s *scheduler) syncOf(p *value) *syncState {
	st := s.i.syncTab[p]
	if st == nil {
		st = &syncState{}
		s.i.syncTab[p] = st
	}
	return st
}

func (s *scheduler) mutexLock(p *value) {
	st := s.syncOf(p)
	for st.locked {
		st.waiters = append(st.waiters, s.cur)
		s.park("sync.Mutex.Lock")
	}
	st.locked = true
	s.cur.vc = s.cur.vc.join(st.vc)
}

func (s *scheduler) mutexUnlock(p *value) {
	st := s.syncOf(p)
	if !st.locked {
		panic(targetPanic{iface{s.i.runtimeErrorString, "sync: unlock of unlocked mutex"}})
	}
	st.locked = false
	st.vc = st.vc.join(s.cur.vc)
	s.tick()
	ws := st.waiters
	st.waiters = nil
	for _, g := range ws {
		s.wakeG(g)
	}
}

func (s *scheduler) wgAdd(p *value, d int64) {
	st := s.syncOf(p)
	st.count += d
	st.vc = st.vc.join(s.cur.vc)
	s.tick()
	if st.count < 0 {
		panic(targetPanic{iface{s.i.runtimeErrorString, "sync: negative WaitGroup counter"}})
	}
	if st.count == 0 {
		ws := st.waiters
		st.waiters = nil
		for _, g := range ws {
			s.wakeG(g)
		}
	}
}

func (s *scheduler) wgWait(p *value) {
	st := s.syncOf(p)
	for st.count > 0 {
		st.waiters = append(st.waiters, s.cur)
		s.park("sync.WaitGroup.Wait")
	}
	s.cur.vc = s.cur.vc.join(st.vc)
}

// sleep blocks the current goroutine for d virtual nanoseconds.
func (s *scheduler) sleep(d int64) {
	if d <= 0 {
		s.yield()
		return
	}
	s.timers = append(s.timers, &vtimer{at: s.now + d, g: s.cur})
	s.park("time.Sleep")
}

func (s *scheduler) after(d int64) *schan {
	ch := s.newChan(1, nil)
	s.timers = append(s.timers, &vtimer{at: s.now + d, ch: ch})
	return ch
}

var debugSched = os.Getenv("SYMGO_DEBUG_SCHED") != ""

// schedBudget is the number of scheduler decisions explored on the current path.
func (i *interpreter) schedBudget() int {
	if i.job != nil && i.job.SchedChoices > 0 {
		return i.job.SchedChoices
	}
	return i.cfg.SchedChoices
}
