package interp

// SMT solver sessions over SMT-LIB2 text pipes.
//
// One long-lived primary process per worker (z3 -in).  A session is
// incremental along one execution path: (reset) at the start of the path,
// definitions and path-condition assertions at the top level as they arise,
// every query as (push 1)(assert q)(check-sat)[(get-value ..)](pop 1).
// `unknown`/timeouts fall back to one-shot runs of the other solvers with the
// complete cone of the path condition.

import (
	"bufio"
	"fmt"
	"io"
	"os"
	"os/exec"
	"strconv"
	"strings"
	"sync/atomic"
	"time"
)

type satResult int

const (
	resUnknown satResult = iota
	resSat
	resUnsat
	resError
)

func (r satResult) String() string {
	return [...]string{"unknown", "sat", "unsat", "error"}[r]
}

// SolverStats are accumulated over all workers (atomics).
type SolverStats struct {
	Queries   int64
	Sat       int64
	Unsat     int64
	Unknown   int64
	Errors    int64
	Fallbacks int64
	NanosZ3   int64
	NanosFB   int64
	Restarts  int64
}

type solver struct {
	cmdline []string
	cmd     *exec.Cmd
	in      io.WriteCloser
	out     *bufio.Reader
	ctx     *tctx
	emitted map[*term]bool
	ufDone  map[string]bool
	stats   *SolverStats
	timeout int // ms per query
	seq     int
	dead    bool
	curTO   int
	kind    string
	log     io.Writer // optional SMT transcript
}

func newSolver(ctx *tctx, stats *SolverStats, timeoutMs int) *solver {
	s := &solver{ctx: ctx, stats: stats, timeout: timeoutMs, kind: "z3"}
	s.start()
	return s
}

// use switches the primary solver ("z3" or "cvc5"), restarting the process if needed.
func (s *solver) use(kind string) {
	if kind == "" {
		kind = "z3"
	}
	if kind == s.kind && !s.dead {
		return
	}
	s.close()
	s.kind = kind
	s.start()
}

func (s *solver) start() {
	if s.kind == "cvc5" {
		s.cmdline = []string{"cvc5", "--incremental", "--fp-exp", "--produce-models", "--lang=smt2", "--tlimit-per=" + strconv.Itoa(s.timeout)}
	} else {
		s.cmdline = []string{"z3-new", "-in"}
	}
	s.cmd = exec.Command(s.cmdline[0], s.cmdline[1:]...)
	in, err := s.cmd.StdinPipe()
	if err != nil {
		panic(err)
	}
	out, err := s.cmd.StdoutPipe()
	if err != nil {
		panic(err)
	}
	s.cmd.Stderr = nil
	if err := s.cmd.Start(); err != nil {
		panic(fmt.Sprintf("cannot start solver %v: %v", s.cmdline, err))
	}
	s.in = in
	s.out = bufio.NewReaderSize(out, 1<<16)
	if d := os.Getenv("VERIF_SMT_LOG"); d != "" && s.log == nil {
		f, _ := os.Create(fmt.Sprintf("%s/session-%d.smt2", d, os.Getpid()))
		s.log = f
	}
	s.dead = false
	s.resetSession()
}

func (s *solver) close() {
	if s.cmd != nil && s.cmd.Process != nil {
		s.in.Close()
		s.cmd.Process.Kill()
		s.cmd.Wait()
	}
}

func (s *solver) send(str string) {
	if s.log != nil {
		io.WriteString(s.log, str)
	}
	if _, err := io.WriteString(s.in, str); err != nil {
		s.dead = true
	}
}

// resetSession starts a new path.
func (s *solver) resetSession() {
	s.emitted = map[*term]bool{}
	s.ufDone = map[string]bool{}
	if s.kind == "cvc5" {
		s.send("(reset)\n(set-logic ALL)\n")
	} else {
		s.send("(reset)\n(set-option :timeout " + strconv.Itoa(s.timeout) + ")\n")
	}
	s.curTO = s.timeout
}

// setTimeout changes the per-query timeout of the session.
func (s *solver) setTimeout(ms int) {
	if ms != s.curTO && s.kind != "cvc5" {
		s.send("(set-option :timeout " + strconv.Itoa(ms) + ")\n")
		s.curTO = ms
	}
}

func (s *solver) define(t *term) {
	var sb strings.Builder
	emitDefs(&sb, t, s.emitted, s.ctx, s.ufDone)
	if sb.Len() > 0 {
		s.send(sb.String())
	}
}

// assert adds t to the session permanently (path condition).
func (s *solver) assert(t *term) {
	s.define(t)
	s.send("(assert " + t.ref() + ")\n")
}

// roundTrip sends cmds followed by an end marker and returns the output lines before it.
func (s *solver) roundTrip(cmds string) ([]string, bool) {
	s.seq++
	marker := "@@END" + strconv.Itoa(s.seq)
	s.send(cmds + "(echo \"" + marker + "\")\n")
	if s.dead {
		return nil, false
	}
	var lines []string
	timer := time.AfterFunc(time.Duration(s.timeout)*time.Millisecond*3+20*time.Second, func() {
		s.cmd.Process.Kill()
	})
	defer timer.Stop()
	for {
		line, err := s.out.ReadString('\n')
		if err != nil {
			s.dead = true
			return lines, false
		}
		l := strings.TrimSpace(line)
		if strings.Contains(l, marker) {
			return lines, true
		}
		if l != "" {
			lines = append(lines, l)
		}
	}
}

// check asks whether (session assertions ∧ extra) is satisfiable.  With
// wantModel it also returns the values of the requested variables.
func (s *solver) check(extra *term, modelVars []*term) (satResult, map[string]uint64) {
	t0 := time.Now()
	defer func() { atomic.AddInt64(&s.stats.NanosZ3, int64(time.Since(t0))) }()
	atomic.AddInt64(&s.stats.Queries, 1)
	var sb strings.Builder
	if extra != nil {
		s.define(extra)
	}
	for _, v := range modelVars {
		s.define(v)
	}
	sb.WriteString("(push 1)\n")
	if extra != nil {
		sb.WriteString("(assert " + extra.ref() + ")\n")
	}
	sb.WriteString("(check-sat)\n")
	lines, ok := s.roundTrip(sb.String())
	res := resUnknown
	if ok {
		res = parseSat(lines)
	}
	var model map[string]uint64
	if res == resSat && len(modelVars) > 0 {
		var q strings.Builder
		q.WriteString("(get-value (")
		for _, v := range modelVars {
			q.WriteString(v.ref())
			q.WriteByte(' ')
		}
		q.WriteString("))\n")
		ml, ok2 := s.roundTrip(q.String())
		if ok2 {
			model = parseModel(strings.Join(ml, " "))
		}
	}
	if !s.dead {
		s.send("(pop 1)\n")
	}
	switch res {
	case resSat:
		atomic.AddInt64(&s.stats.Sat, 1)
	case resUnsat:
		atomic.AddInt64(&s.stats.Unsat, 1)
	case resError:
		atomic.AddInt64(&s.stats.Errors, 1)
	default:
		atomic.AddInt64(&s.stats.Unknown, 1)
	}
	return res, model
}

// parseSat reads the verdict.  An (error …) line *before* the verdict makes
// the answer inconclusive (the solver may have dropped an assertion); errors
// after it come from get-value on a non-sat state and are irrelevant.
func parseSat(lines []string) satResult {
	for _, l := range lines {
		if strings.HasPrefix(l, "(error") {
			return resError
		}
		switch l {
		case "sat":
			return resSat
		case "unsat":
			return resUnsat
		case "unknown", "timeout":
			return resUnknown
		}
	}
	return resUnknown
}

// parseModel reads ((|a| #x00ff) (|b| true) ...) into name -> bits.
func parseModel(s string) map[string]uint64 {
	m := map[string]uint64{}
	i := 0
	n := len(s)
	skip := func() {
		for i < n && (s[i] == ' ' || s[i] == '\n' || s[i] == '\t') {
			i++
		}
	}
	skip()
	if i >= n || s[i] != '(' {
		return m
	}
	i++
	for {
		skip()
		if i >= n || s[i] == ')' {
			break
		}
		if s[i] != '(' {
			break
		}
		i++
		skip()
		// name
		var name string
		if i < n && s[i] == '|' {
			j := strings.IndexByte(s[i+1:], '|')
			if j < 0 {
				break
			}
			name = s[i+1 : i+1+j]
			i = i + 1 + j + 1
		} else {
			j := i
			for j < n && s[j] != ' ' && s[j] != ')' {
				j++
			}
			name = s[i:j]
			i = j
		}
		skip()
		// value: up to matching ')'
		depth := 0
		j := i
		for j < n {
			if s[j] == '(' {
				depth++
			} else if s[j] == ')' {
				if depth == 0 {
					break
				}
				depth--
			}
			j++
		}
		val := strings.TrimSpace(s[i:j])
		i = j + 1
		switch {
		case val == "true":
			m[name] = 1
		case val == "false":
			m[name] = 0
		case strings.HasPrefix(val, "#x"):
			u, _ := strconv.ParseUint(val[2:], 16, 64)
			m[name] = u
		case strings.HasPrefix(val, "#b"):
			u, _ := strconv.ParseUint(val[2:], 2, 64)
			m[name] = u
		case strings.HasPrefix(val, "(_ bv"):
			f := strings.Fields(val[5:])
			if len(f) > 0 {
				u, _ := strconv.ParseUint(f[0], 10, 64)
				m[name] = u
			}
		}
	}
	return m
}

// oneShot runs a fresh solver process on the complete query (fallback and
// cross-checking).  terms are asserted conjunctively.
func oneShot(cmdline []string, ctx *tctx, terms []*term, modelVars []*term, timeout time.Duration) (satResult, map[string]uint64, string) {
	var sb strings.Builder
	emitted := map[*term]bool{}
	ufDone := map[string]bool{}
	if strings.HasPrefix(cmdline[0], "cvc5") {
		sb.WriteString("(set-logic ALL)\n")
	}
	for _, t := range terms {
		emitDefs(&sb, t, emitted, ctx, ufDone)
	}
	for _, v := range modelVars {
		emitDefs(&sb, v, emitted, ctx, ufDone)
	}
	for _, t := range terms {
		sb.WriteString("(assert " + t.ref() + ")\n")
	}
	sb.WriteString("(check-sat)\n")
	if len(modelVars) > 0 {
		sb.WriteString("(get-value (")
		for _, v := range modelVars {
			sb.WriteString(v.ref() + " ")
		}
		sb.WriteString("))\n")
	}
	cmd := exec.Command(cmdline[0], cmdline[1:]...)
	cmd.Stdin = strings.NewReader(sb.String())
	var out strings.Builder
	cmd.Stdout = &out
	done := make(chan error, 1)
	if err := cmd.Start(); err != nil {
		return resError, nil, sb.String()
	}
	go func() { done <- cmd.Wait() }()
	select {
	case <-done:
	case <-time.After(timeout + 5*time.Second):
		cmd.Process.Kill()
		<-done
		return resUnknown, nil, sb.String()
	}
	lines := strings.Split(out.String(), "\n")
	var clean []string
	for _, l := range lines {
		l = strings.TrimSpace(l)
		if l != "" {
			clean = append(clean, l)
		}
	}
	res := parseSat(clean)
	var model map[string]uint64
	if res == resSat && len(modelVars) > 0 && len(clean) > 1 {
		model = parseModel(strings.Join(clean[1:], " "))
	}
	return res, model, sb.String()
}

// Fallback solver command lines (timeouts in ms are appended by the caller).
func fallbackCmds(primary string, timeoutMs int) [][]string {
	cvc := []string{"cvc5", "--fp-exp", "--produce-models", "--tlimit=" + strconv.Itoa(timeoutMs), "--lang=smt2"}
	z3n := []string{"z3-new", "-in", "-t:" + strconv.Itoa(timeoutMs)}
	z3o := []string{"z3", "-in", "-t:" + strconv.Itoa(timeoutMs)}
	if primary == "cvc5" {
		return [][]string{z3n, z3o}
	}
	return [][]string{cvc, z3o}
}
