package interp

// Path state, decisions, obligations and findings of the symbolic executor.

import (
	"fmt"
	"os"
	"go/types"
	"math"
	"sort"
	"strconv"
	"strings"
	"time"
)

// Decision is one recorded choice on a path (branch side or concretised value).
type Decision struct {
	Side   bool
	Forced bool   // only one side was feasible: no alternative exists
	Val    uint64 // value for concretisation / choice decisions
}

// Finding is a (candidate) counterexample or monitor report.
type Finding struct {
	Harness string
	Job     string
	Kind    string // assert | panic | goroutine-panic | leak | deadlock | steps | frozen-store | race | unknown
	ID      string
	Detail  string
	Inputs  map[string]string // model of the symbolic inputs (replay format)
	Path    string            // decision vector rendering
	// set by the replay step
	Replayed  bool
	Confirmed bool
	ReplayOut string
	ReplayFile string
}

type inputVar struct {
	name string
	t    *term // the declared constant (Bool or BV)
	kind types.BasicKind
}

// pathAbort is the engine's own control transfer; it must never be visible to
// the target's defer/recover.
type pathAbort struct {
	reason string // "infeasible" | "assume" | "steps" | "end" | "teardown" | "unsupported: ..."
}

type pathState struct {
	prefix []Decision
	dec    []Decision
	pos    int
	pc     []*term
	pcSet  map[*term]bool
	pcSent int

	inputs    []inputVar
	nameCount map[string]int
	choices   map[string]string // Choice inputs (name -> value) for replay files
	concrete  map[*term]uint64  // values chosen by concretize on this path
	model        map[string]uint64 // cached model of (a prefix of) the path condition
	modelPC      int
	modelFor     *term
	evalc        *evalCtx
	modelChecked int
	modelOK      bool

	steps     int64
	maxSteps  int64
	notes     []string
	reached   map[string]bool
	findings  []*Finding
	alts      [][]Decision
	counters  map[string]int64
	unknownFeas int

	oblConcrete, oblSyntactic, oblSolver, oblFailed, oblInconclusive int
	status string

	// monitors
	frozen      map[*value]bool // cells that must not be written (C11)
	frozenMaps  map[*omap]bool
	frozenOn    bool
	frozenHits  map[string]bool
	marks       map[string]int64
}

func newPathState(prefix []Decision, maxSteps int64) *pathState {
	return &pathState{
		prefix:    prefix,
		pcSet:     map[*term]bool{},
		nameCount: map[string]int{},
		choices:   map[string]string{},
		concrete:  map[*term]uint64{},
		reached:   map[string]bool{},
		counters:  map[string]int64{},
		maxSteps:  maxSteps,
		marks:     map[string]int64{},
	}
}

func decString(d []Decision) string {
	var sb strings.Builder
	for _, x := range d {
		switch {
		case x.Val != 0 || (!x.Side && !x.Forced && false):
			fmt.Fprintf(&sb, "[%d]", x.Val)
		case x.Side:
			sb.WriteByte('1')
		default:
			sb.WriteByte('0')
		}
	}
	return sb.String()
}

func (i *interpreter) abort(reason string) {
	panic(pathAbort{reason})
}

func (i *interpreter) addPC(t *term) {
	p := i.path
	if t.isTrue() || p.pcSet[t] {
		return
	}
	// split conjunctions so that later syntactic lookups succeed more often
	if t.op == "and" {
		i.addPC(t.args[0])
		i.addPC(t.args[1])
		return
	}
	p.pcSet[t] = true
	p.pc = append(p.pc, t)
}

// flushPC sends not yet asserted path-condition terms to the solver session.
func (i *interpreter) flushPC() {
	p := i.path
	if i.slv.dead {
		i.slv.close()
		i.slv.start()
		p.pcSent = 0
		i.stats.Restarts++
	}
	for p.pcSent < len(p.pc) {
		i.slv.assert(p.pc[p.pcSent])
		p.pcSent++
	}
}

// check asks the solver whether pc ∧ extra is satisfiable.
func (i *interpreter) check(extra *term, wantModel bool) (satResult, map[string]uint64) {
	i.flushPC()
	var mv []*term
	if wantModel {
		for _, in := range i.path.inputs {
			mv = append(mv, in.t)
		}
	}
	res, model := i.slv.check(extra, mv)
	if i.slv.dead {
		// solver was killed (hard timeout); the session is rebuilt lazily
		res = resUnknown
	}
	return res, model
}

// checkStrong is check with the fallback portfolio on unknown (used for obligations).
func (i *interpreter) checkStrong(extra *term, wantModel bool) (satResult, map[string]uint64) {
	// floating-point obligations are usually decided faster by cvc5: give the
	// primary solver a short slice first
	fp := extra != nil && i.hasFP(extra)
	if !fp {
		for _, t := range i.path.pc {
			if i.hasFP(t) {
				fp = true
				break
			}
		}
	}
	if fp {
		i.slv.setTimeout(i.cfg.SolverTimeoutMs / 5)
	}
	res, model := i.check(extra, wantModel)
	if fp {
		i.slv.setTimeout(i.cfg.SolverTimeoutMs)
	}
	if res == resSat || res == resUnsat {
		return res, model
	}
	terms := append([]*term{}, i.path.pc...)
	if extra != nil {
		terms = append(terms, extra)
	}
	var mv []*term
	if wantModel {
		for _, in := range i.path.inputs {
			mv = append(mv, in.t)
		}
	}
	t0 := time.Now()
	defer func() { i.stats.NanosFB += int64(time.Since(t0)) }()
	for _, cmd := range fallbackCmds(i.slv.kind, i.cfg.FallbackTimeoutMs) {
		i.stats.Fallbacks++
		r, m, q := oneShot(cmd, i.tc, terms, mv, time.Duration(i.cfg.FallbackTimeoutMs)*time.Millisecond)
		if d := os.Getenv("VERIF_DUMP_SMT"); d != "" {
			i.stats.Fallbacks++
			os.WriteFile(fmt.Sprintf("%s/q%d-%s.smt2", d, i.stats.Fallbacks, cmd[0]), []byte(q), 0o644)
		}
		if r == resSat || r == resUnsat {
			return r, m
		}
	}
	return resUnknown, nil
}

// decide returns the side of a symbolic branch, forking the exploration.
func (i *interpreter) decide(c *term) bool {
	if c.isConst() {
		return c.cv == 1
	}
	p := i.path
	if p.pcSet[c] {
		return true
	}
	nc := i.tc.not(c)
	if p.pcSet[nc] {
		return false
	}
	if i.job != nil && i.job.MaxDecisions > 0 && len(p.dec) >= i.job.MaxDecisions && !i.noFork {
		// a path that keeps branching on its inputs (a loop over symbolic data that does not end):
		// treated like an exhausted step budget
		i.abortReason = "steps"
		panic(pathAbort{"steps"})
	}
	var side bool
	if p.pos < len(p.prefix) {
		d := p.prefix[p.pos]
		side = d.Side
		p.dec = append(p.dec, d)
		p.pos++
	} else {
		if i.noFork {
			// after the harness has returned (drain/quiesce) left-over goroutines are
			// followed along ONE feasible path: no alternatives are recorded
			if p.model == nil {
				i.checkM(nil)
			}
			if v, ok := i.evalUnderModel(c); ok {
				p.dec = append(p.dec, Decision{Side: v, Forced: true})
				p.pos++
				if v {
					i.addPC(c)
				} else {
					i.addPC(nc)
				}
				return v
			}
			r := i.checkM(c)
			v := r != resUnsat
			p.dec = append(p.dec, Decision{Side: v, Forced: true})
			p.pos++
			if v {
				i.addPC(c)
			} else {
				i.addPC(nc)
			}
			return v
		}
		// a cached model of the path condition decides one side for free
		rT, rF := resUnknown, resUnknown
		knownT, knownF := false, false
		if v, ok := i.evalUnderModel(c); ok {
			if v {
				rT, knownT = resSat, true
			} else {
				rF, knownF = resSat, true
			}
		}
		if !knownT {
			rT = i.checkM(c)
		}
		var d Decision
		if rT == resUnsat {
			d = Decision{Side: false, Forced: true}
		} else {
			if !knownF {
				rF = i.checkM(nc)
			}
			if rF == resUnsat {
				d = Decision{Side: true, Forced: true}
			} else {
				if rT != resSat || rF != resSat {
					p.unknownFeas++
				}
				d = Decision{Side: true}
				alt := append(append([]Decision{}, p.dec...), Decision{Side: false})
				p.alts = append(p.alts, alt)
			}
		}
		p.dec = append(p.dec, d)
		p.pos++
		side = d.Side
	}
	if side {
		i.addPC(c)
	} else {
		i.addPC(nc)
	}
	return side
}

// checkM is a feasibility check that refreshes the cached model on sat.
func (i *interpreter) checkM(extra *term) satResult {
	res, model := i.check(extra, true)
	if res == resSat && model != nil {
		i.path.model = model
		i.path.modelPC = len(i.path.pc) + 1 // valid once extra has been added
		i.path.modelFor = extra
		i.path.evalc = nil
	}
	return res
}

// evalUnderModel evaluates c under the cached model if that model is known to
// satisfy the current path condition.
func (i *interpreter) evalUnderModel(c *term) (bool, bool) {
	p := i.path
	if p.model == nil {
		return false, false
	}
	// the model was computed for pc[:k] ∧ modelFor; it is valid for the
	// current pc iff every later pc term evaluates to true under it
	if p.evalc == nil {
		p.evalc = newEvalCtx(p.model)
		p.modelChecked = 0
		p.modelOK = true
	}
	for p.modelChecked < len(p.pc) {
		v, ok := p.evalc.eval(p.pc[p.modelChecked])
		if !ok || v == 0 {
			p.modelOK = false
			break
		}
		p.modelChecked++
	}
	if !p.modelOK {
		p.model = nil
		p.evalc = nil
		return false, false
	}
	// inputs created after the model was taken are unconstrained: value 0
	for _, in := range p.inputs {
		if _, ok := p.model[in.name]; !ok {
			p.model[in.name] = 0
		}
	}
	v, ok := p.evalc.eval(c)
	if !ok {
		return false, false
	}
	return v != 0, true
}

// chooseN is an unconstrained n-way choice (sym.Choice, scheduler choices).
func (i *interpreter) chooseN(n int) int {
	if n <= 1 {
		return 0
	}
	p := i.path
	if p.pos < len(p.prefix) {
		d := p.prefix[p.pos]
		p.dec = append(p.dec, d)
		p.pos++
		return int(d.Val)
	}
	for k := 1; k < n; k++ {
		alt := append(append([]Decision{}, p.dec...), Decision{Val: uint64(k), Forced: true})
		p.alts = append(p.alts, alt)
	}
	p.dec = append(p.dec, Decision{Val: 0, Forced: true})
	p.pos++
	return 0
}

// concretize picks a concrete value for t, forking over all feasible values
// (at most max; beyond that the path is incomplete).
func (i *interpreter) concretize(t *term, signed bool, max int, why string) uint64 {
	if t.isConst() {
		return t.cv
	}
	p := i.path
	c := i.tc
	if v, ok := p.concrete[t]; ok {
		return v
	}
	for n := 0; ; n++ {
		if n >= max {
			i.incomplete(fmt.Sprintf("concretisation of %s exceeds %d values", why, max))
		}
		var v uint64
		if p.pos < len(p.prefix) {
			d := p.prefix[p.pos]
			p.dec = append(p.dec, d)
			p.pos++
			v = d.Val
			eq := c.eq(t, c.konst(t.s, v))
			if d.Side {
				i.addPC(eq)
				p.concrete[t] = v
				return v
			}
			i.addPC(c.not(eq))
			continue
		}
		// ask for a model value of t
		i.flushPC()
		vt := c.freshVar("cz", t.s)
		res, model := i.slv.check(c.eq(vt, t), []*term{vt})
		if res == resUnsat {
			i.abort("infeasible")
		}
		if res != resSat || model == nil {
			i.incomplete("concretisation of " + why + ": solver gave no model")
		}
		v = model[vt.name]
		eq := c.eq(t, c.konst(t.s, v))
		// is another value possible?
		rF, _ := i.check(c.not(eq), false)
		if rF == resUnsat {
			p.dec = append(p.dec, Decision{Side: true, Forced: true, Val: v})
			p.pos++
			i.addPC(eq)
			p.concrete[t] = v
			return v
		}
		alt := append(append([]Decision{}, p.dec...), Decision{Side: false, Val: v})
		p.alts = append(p.alts, alt)
		p.dec = append(p.dec, Decision{Side: true, Val: v})
		p.pos++
		i.addPC(eq)
		p.concrete[t] = v
		return v
	}
}

func (i *interpreter) incomplete(why string) {
	i.path.status = "incomplete: " + why
	i.abort("incomplete: " + why)
}

// ---- inputs ----

func (i *interpreter) newInput(name string, k types.BasicKind) value {
	p := i.path
	p.nameCount[name]++
	if n := p.nameCount[name]; n > 1 {
		name = name + "#" + strconv.Itoa(n)
	}
	c := i.tc
	switch {
	case k == types.Bool:
		v := c.mkvar(name, sBool)
		p.inputs = append(p.inputs, inputVar{name, v, k})
		return symv{v, k}
	case kindIsFloat(k):
		bits := c.mkvar(name, bvSort(kindSort(k).width()))
		p.inputs = append(p.inputs, inputVar{name, bits, k})
		return symv{c.bvToFp(bits), k}
	default:
		v := c.mkvar(name, kindSort(k))
		p.inputs = append(p.inputs, inputVar{name, v, k})
		return symv{v, k}
	}
}

// modelInputs renders a solver model in replay-file form.
func (i *interpreter) modelInputs(model map[string]uint64) map[string]string {
	out := map[string]string{}
	for _, in := range i.path.inputs {
		v := model[in.name]
		switch {
		case in.kind == types.Bool:
			out[in.name] = strconv.FormatUint(v&1, 10)
		case in.kind == types.Float64:
			out[in.name] = "bits:" + strconv.FormatUint(v, 10)
		case in.kind == types.Float32:
			out[in.name] = "bits:" + strconv.FormatUint(math.Float64bits(float64(math.Float32frombits(uint32(v)))), 10)
		case kindSigned(in.kind):
			out[in.name] = strconv.FormatInt(sext64(v, kindSort(in.kind).width()), 10)
		default:
			out[in.name] = strconv.FormatUint(v, 10)
		}
	}
	for k, v := range i.path.choices {
		out[k] = v
	}
	return out
}

func (i *interpreter) addFinding(kind, id, detail string, model map[string]uint64) *Finding {
	f := &Finding{Harness: i.job.Harness, Job: i.job.Param, Kind: kind, ID: id, Detail: detail,
		Inputs: i.modelInputs(model), Path: decString(i.path.dec)}
	i.path.findings = append(i.path.findings, f)
	return f
}

// findingHere records a monitor finding with a model of the current path condition.
func (i *interpreter) findingHere(kind, id, detail string) {
	var model map[string]uint64
	if len(i.path.inputs) > 0 {
		res, m := i.checkStrong(nil, true)
		if res == resUnsat {
			return // path condition infeasible: nothing real happened here
		}
		model = m
	}
	i.addFinding(kind, id, detail, model)
}

// assert handles sym.Assert.
func (i *interpreter) assert(cv value, id string) {
	p := i.path
	switch c := cv.(type) {
	case bool:
		if c {
			p.oblConcrete++
			return
		}
		p.oblFailed++
		i.findingHere("assert", id, "assertion is false on this path for every input that reaches it")
	case symv:
		if p.pcSet[c.t] {
			p.oblSyntactic++
			return
		}
		res, model := i.checkStrong(i.tc.not(c.t), true)
		switch res {
		case resUnsat:
			p.oblSolver++
			i.addPC(c.t)
			return
		case resSat:
			p.oblFailed++
			i.addFinding("assert", id, "solver model violates the assertion: "+c.t.String(), model)
		default:
			p.oblInconclusive++
			i.addFinding("unknown", id, "solver could not decide the assertion", nil)
		}
		// continue under the assumption that the assertion holds
		r2, _ := i.check(c.t, false)
		if r2 == resUnsat {
			i.abort("end")
		}
		i.addPC(c.t)
	default:
		panic(fmt.Sprintf("sym.Assert: unexpected %T", cv))
	}
}

func (i *interpreter) assume(cv value) {
	switch c := cv.(type) {
	case bool:
		if !c {
			i.abort("assume")
		}
	case symv:
		p := i.path
		if p.pcSet[c.t] {
			return
		}
		if p.pos < len(p.prefix) {
			// replaying: feasibility was established when the prefix was recorded
			i.addPC(c.t)
			return
		}
		res, _ := i.check(c.t, false)
		if res == resUnsat {
			i.abort("assume")
		}
		i.addPC(c.t)
	}
}

// sortedKeys is a small helper for deterministic output.
func sortedKeys[V any](m map[string]V) []string {
	ks := make([]string, 0, len(m))
	for k := range m {
		ks = append(ks, k)
	}
	sort.Strings(ks)
	return ks
}

// hasFP reports whether a term contains floating-point operations (memoised).
func (i *interpreter) hasFP(t *term) bool {
	if i.fpMemo == nil {
		i.fpMemo = map[*term]bool{}
	}
	if v, ok := i.fpMemo[t]; ok {
		return v
	}
	r := t.s.isFP()
	if !r {
		for _, a := range t.args {
			if i.hasFP(a) {
				r = true
				break
			}
		}
	}
	i.fpMemo[t] = r
	return r
}
