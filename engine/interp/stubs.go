package interp

// Externals of the symbolic engine: the harness API (package sym), the
// environment (sync, time, runtime, log, fmt), and intrinsics for library
// code that cannot be interpreted from source (assembly, unsafe, reflection).
// Every entry here is part of the claim and is listed in the evidence.

import (
	"fmt"
	"go/token"
	"go/types"
	"math"
	"strconv"
	"strings"
	"unicode"
	"unicode/utf8"

	"golang.org/x/tools/go/ssa"
)

// notHandled tells callSSA to interpret the function body instead.
type notHandledT struct{}

var notHandled = notHandledT{}

// nativeFn is a callable value implemented by the engine.
type nativeFn func(fr *frame, args []value) value

const symPkg = "verifharness/sym."

var engineExternals map[string]externalFn

func (i *interpreter) externalFor(fn *ssa.Function) externalFn {
	if fn.Parent() != nil {
		return nil
	}
	name := fn.String()
	if ext := engineExternals[name]; ext != nil {
		return ext
	}
	if ext := externals[name]; ext != nil {
		return ext
	}
	// generic instantiations: strip type arguments, e.g. slices.Sort[[]int]
	if k := strings.IndexByte(name, '['); k > 0 {
		if ext := engineExternals[name[:k]]; ext != nil {
			return ext
		}
	}
	return nil
}

func anySym(args []value) bool {
	for _, a := range args {
		if isSym(a) {
			return true
		}
		if s, ok := a.([]value); ok {
			for _, e := range s {
				if isSym(e) {
					return true
				}
			}
		}
	}
	return false
}

func gostr(v value) string { return v.(string) }

func init() {
	E := map[string]externalFn{}
	engineExternals = E

	// ---- harness API ----
	mkIn := func(k types.BasicKind) externalFn {
		return func(fr *frame, args []value) value { return fr.i.newInput(gostr(args[0]), k) }
	}
	E[symPkg+"Int64"] = mkIn(types.Int64)
	E[symPkg+"Int"] = mkIn(types.Int)
	E[symPkg+"Int32"] = mkIn(types.Int32)
	E[symPkg+"Byte"] = mkIn(types.Uint8)
	E[symPkg+"Rune"] = mkIn(types.Int32)
	E[symPkg+"Bool"] = mkIn(types.Bool)
	E[symPkg+"Float64"] = mkIn(types.Float64)
	E[symPkg+"Choice"] = func(fr *frame, args []value) value {
		n := int(asInt64(args[1]))
		v := fr.i.chooseN(n)
		name := gostr(args[0])
		p := fr.i.path
		p.nameCount[name]++
		if c := p.nameCount[name]; c > 1 {
			name = name + "#" + strconv.Itoa(c)
		}
		p.choices[name] = strconv.Itoa(v)
		return v
	}
	E[symPkg+"Assume"] = func(fr *frame, args []value) value { fr.i.assume(args[0]); return nil }
	E[symPkg+"Assert"] = func(fr *frame, args []value) value { fr.i.assert(args[0], gostr(args[1])); return nil }
	E[symPkg+"Reach"] = func(fr *frame, args []value) value { fr.i.path.reached[gostr(args[0])] = true; return nil }
	E[symPkg+"Note"] = func(fr *frame, args []value) value {
		if len(fr.i.path.notes) < 20 {
			fr.i.path.notes = append(fr.i.path.notes, fr.i.showStr(args[0]))
		}
		return nil
	}
	boolOp := func(f func(c *tctx, a, b *term) *term) externalFn {
		return func(fr *frame, args []value) value {
			c := fr.i.tc
			return fromTerm(f(c, c.toTerm(args[0]), c.toTerm(args[1])), types.Bool)
		}
	}
	E[symPkg+"And"] = boolOp(func(c *tctx, a, b *term) *term { return c.and(a, b) })
	E[symPkg+"Or"] = boolOp(func(c *tctx, a, b *term) *term { return c.or(a, b) })
	E[symPkg+"Implies"] = boolOp(func(c *tctx, a, b *term) *term { return c.implies(a, b) })
	E[symPkg+"Iff"] = boolOp(func(c *tctx, a, b *term) *term { return c.eq(a, b) })
	E[symPkg+"Not"] = func(fr *frame, args []value) value {
		c := fr.i.tc
		return fromTerm(c.not(c.toTerm(args[0])), types.Bool)
	}
	ite := func(k types.BasicKind) externalFn {
		return func(fr *frame, args []value) value {
			c := fr.i.tc
			return fromTerm(c.ite(c.toTerm(args[0]), c.toTerm(args[1]), c.toTerm(args[2])), k)
		}
	}
	E[symPkg+"IteInt"] = ite(types.Int64)
	E[symPkg+"IteF"] = ite(types.Float64)
	E[symPkg+"IsSym"] = func(fr *frame, args []value) value {
		if itf, ok := args[0].(iface); ok {
			return containsSym(itf.v)
		}
		return containsSym(args[0])
	}
	E[symPkg+"Symbolic"] = func(fr *frame, args []value) value { return true }
	E[symPkg+"Mark"] = func(fr *frame, args []value) value { fr.i.mark(fr, gostr(args[0])); return nil }
	E[symPkg+"Freeze"] = func(fr *frame, args []value) value {
		// freeze everything reachable from the given roots and from the globals of /repo's packages
		p := fr.i.path
		p.frozen = map[*value]bool{}
		p.frozenMaps = map[*omap]bool{}
		seen := map[any]bool{}
		for g, cell := range fr.i.globals {
			if g.Pkg != nil && fr.i.isTarget(g.Pkg) && !strings.HasPrefix(g.Pkg.Pkg.Path(), "verifharness") {
				fr.i.freezeWalk(cell, seen)
			}
		}
		for _, r := range args[0].([]value) {
			fr.i.freezeVal(r, seen)
		}
		p.frozenOn = true
		return nil
	}
	E[symPkg+"CountAdd"] = func(fr *frame, args []value) value {
		fr.i.hostCounters[gostr(args[0])] += asInt64(args[1])
		return nil
	}
	E[symPkg+"CountGet"] = func(fr *frame, args []value) value { return fr.i.hostCounters[gostr(args[0])] }
	E[symPkg+"load"] = func(fr *frame, args []value) value { return nil }

	// ---- sync ----
	E["(*sync.Mutex).Lock"] = func(fr *frame, args []value) value { fr.i.sched.mutexLock(args[0].(*value)); return nil }
	E["(*sync.Mutex).Unlock"] = func(fr *frame, args []value) value { fr.i.sched.mutexUnlock(args[0].(*value)); return nil }
	E["(*sync.Mutex).TryLock"] = func(fr *frame, args []value) value {
		st := fr.i.sched.syncOf(args[0].(*value))
		if st.locked {
			return false
		}
		fr.i.sched.mutexLock(args[0].(*value))
		return true
	}
	E["(*sync.RWMutex).Lock"] = E["(*sync.Mutex).Lock"]
	E["(*sync.RWMutex).Unlock"] = E["(*sync.Mutex).Unlock"]
	E["(*sync.RWMutex).RLock"] = E["(*sync.Mutex).Lock"]
	E["(*sync.RWMutex).RUnlock"] = E["(*sync.Mutex).Unlock"]
	E["(*sync.WaitGroup).Add"] = func(fr *frame, args []value) value {
		fr.i.sched.wgAdd(args[0].(*value), asInt64(args[1]))
		return nil
	}
	E["(*sync.WaitGroup).Done"] = func(fr *frame, args []value) value { fr.i.sched.wgAdd(args[0].(*value), -1); return nil }
	E["(*sync.WaitGroup).Wait"] = func(fr *frame, args []value) value { fr.i.sched.wgWait(args[0].(*value)); return nil }
	E["(*sync.WaitGroup).Go"] = func(fr *frame, args []value) value {
		p := args[0].(*value)
		f := args[1]
		fr.i.sched.wgAdd(p, 1)
		i := fr.i
		fr.i.sched.spawn(nativeFn(func(fr2 *frame, _ []value) value {
			defer i.sched.wgAdd(p, -1)
			call(i, nil, token.NoPos, f, nil)
			return nil
		}), nil, "sync.WaitGroup.Go")
		return nil
	}
	E["(*sync.Once).Do"] = func(fr *frame, args []value) value {
		st := fr.i.sched.syncOf(args[0].(*value))
		if !st.done {
			st.done = true
			call(fr.i, fr, token.NoPos, args[1], nil)
		}
		return nil
	}
	E["(*sync.Pool).Get"] = func(fr *frame, args []value) value {
		p := args[0].(*value)
		st := (*p).(structure)
		// field "New" is the last field
		nf := st[len(st)-1]
		switch f := nf.(type) {
		case *ssa.Function:
			if f == nil {
				return iface{}
			}
		}
		return call(fr.i, fr, token.NoPos, nf, nil)
	}
	E["(*sync.Pool).Put"] = func(fr *frame, args []value) value { return nil }

	// ---- sync/atomic (sequentially consistent under the baton) ----
	for _, ty := range []string{"Int32", "Int64", "Uint32", "Uint64", "Uintptr"} {
		ty := ty
		E["sync/atomic.Load"+ty] = func(fr *frame, args []value) value { return *args[0].(*value) }
		E["sync/atomic.Store"+ty] = func(fr *frame, args []value) value { *args[0].(*value) = args[1]; return nil }
		E["sync/atomic.Add"+ty] = func(fr *frame, args []value) value {
			p := args[0].(*value)
			*p = fr.i.binop(token.ADD, nil, *p, args[1])
			return *p
		}
		E["sync/atomic.Swap"+ty] = func(fr *frame, args []value) value {
			p := args[0].(*value)
			old := *p
			*p = args[1]
			return old
		}
		E["sync/atomic.CompareAndSwap"+ty] = func(fr *frame, args []value) value {
			p := args[0].(*value)
			if *p == args[1] {
				*p = args[2]
				return true
			}
			return false
		}
	}
	E["sync/atomic.LoadPointer"] = func(fr *frame, args []value) value { return *args[0].(*value) }
	E["sync/atomic.StorePointer"] = func(fr *frame, args []value) value { *args[0].(*value) = args[1]; return nil }

	// ---- time (virtual clock) ----
	mkTime := func(ns int64) value { return structure{uint64(0), ns, (*value)(nil)} }
	E["time.Now"] = func(fr *frame, args []value) value {
		s := fr.i.sched
		step := fr.i.cfg.ClockStepNs
		if fr.i.job != nil && fr.i.job.ClockStepNs != 0 {
			step = fr.i.job.ClockStepNs
		}
		s.now += step
		return mkTime(s.now)
	}
	E["(time.Time).Sub"] = func(fr *frame, args []value) value {
		a, b := args[0].(structure), args[1].(structure)
		return a[1].(int64) - b[1].(int64)
	}
	E["time.Since"] = func(fr *frame, args []value) value {
		return fr.i.sched.now - args[0].(structure)[1].(int64)
	}
	E["(time.Time).UnixNano"] = func(fr *frame, args []value) value { return args[0].(structure)[1].(int64) }
	E["time.After"] = func(fr *frame, args []value) value { return fr.i.sched.after(asInt64(args[0])) }
	E["time.Sleep"] = func(fr *frame, args []value) value { fr.i.sched.sleep(asInt64(args[0])); return nil }

	// ---- runtime ----
	E["runtime.NumCPU"] = func(fr *frame, args []value) value {
		if fr.i.job != nil && fr.i.job.NumCPU > 0 {
			return fr.i.job.NumCPU
		}
		return fr.i.cfg.NumCPU
	}
	E["runtime.GOMAXPROCS"] = E["runtime.NumCPU"]
	E["runtime.Gosched"] = func(fr *frame, args []value) value { fr.i.sched.yield(); return nil }
	E["runtime/debug.Stack"] = func(fr *frame, args []value) value { return []value(nil) }
	E["runtime.KeepAlive"] = func(fr *frame, args []value) value { return nil }
	E["runtime.SetFinalizer"] = func(fr *frame, args []value) value { return nil }

	// ---- log: empty bodies ----
	for _, n := range []string{"Print", "Println", "Printf"} {
		E["log."+n] = func(fr *frame, args []value) value { return nil }
	}
	E["os.Getenv"] = func(fr *frame, args []value) value { return "" }

	// ---- fmt ----
	E["fmt.Sprintf"] = func(fr *frame, args []value) value {
		return fr.i.sprintf(fr, gostr(args[0]), args[1].([]value))
	}
	E["fmt.Sprint"] = func(fr *frame, args []value) value { return fr.i.sprint(fr, args[0].([]value), false) }
	E["fmt.Sprintln"] = func(fr *frame, args []value) value { return fr.i.sprint(fr, args[0].([]value), true) }
	E["fmt.Errorf"] = func(fr *frame, args []value) value { return fr.i.errorf(fr, gostr(args[0]), args[1].([]value)) }
	E["fmt.Println"] = func(fr *frame, args []value) value {
		if fr.i.cfg.Trace {
			fmt.Print("[target] ", fr.i.showStr(fr.i.sprint(fr, args[0].([]value), true)))
		}
		return tuple{0, iface{}}
	}
	E["fmt.Printf"] = func(fr *frame, args []value) value {
		if fr.i.cfg.Trace {
			fmt.Print("[target] ", fr.i.showStr(fr.i.sprintf(fr, gostr(args[0]), args[1].([]value))))
		}
		return tuple{0, iface{}}
	}
	E["fmt.Print"] = E["fmt.Println"]

	// ---- strings.Builder / bytealg / unsafe-based helpers ----
	E["(*strings.Builder).copyCheck"] = func(fr *frame, args []value) value { return nil }
	E["(*strings.Builder).String"] = func(fr *frame, args []value) value {
		b := (*args[0].(*value)).(structure)
		buf, _ := b[1].([]value)
		return mkstr(append([]value{}, buf...))
	}
	E["internal/abi.NoEscape"] = func(fr *frame, args []value) value { return args[0] }
	E["internal/bytealg.MakeNoZero"] = func(fr *frame, args []value) value {
		n := asInt64(args[0])
		s := make([]value, n)
		for k := range s {
			s[k] = uint8(0)
		}
		return s
	}
	E["internal/bytealg.IndexByteString"] = func(fr *frame, args []value) value {
		return fr.i.indexByte(strBytes(args[0]), args[1])
	}
	E["internal/bytealg.IndexByte"] = func(fr *frame, args []value) value {
		return fr.i.indexByte(args[0].([]value), args[1])
	}
	E["internal/bytealg.LastIndexByteString"] = func(fr *frame, args []value) value {
		return fr.i.lastIndexByte(strBytes(args[0]), args[1])
	}
	E["internal/bytealg.LastIndexByte"] = func(fr *frame, args []value) value {
		return fr.i.lastIndexByte(args[0].([]value), args[1])
	}
	E["internal/bytealg.CountString"] = func(fr *frame, args []value) value {
		return fr.i.countByte(strBytes(args[0]), args[1])
	}
	E["internal/bytealg.Count"] = func(fr *frame, args []value) value {
		return fr.i.countByte(args[0].([]value), args[1])
	}
	E["internal/bytealg.Equal"] = func(fr *frame, args []value) value {
		return fromTerm(fr.i.strEqTerm(mkstr(args[0].([]value)), mkstr(args[1].([]value))), types.Bool)
	}
	E["bytes.Equal"] = E["internal/bytealg.Equal"]
	E["internal/bytealg.Compare"] = func(fr *frame, args []value) value {
		a, b := mkstr(args[0].([]value)), mkstr(args[1].([]value))
		return fr.i.strCompare(a, b)
	}
	E["internal/bytealg.CompareString"] = func(fr *frame, args []value) value {
		return fr.i.strCompare(args[0], args[1])
	}
	E["strings.Compare"] = E["internal/bytealg.CompareString"]
	E["internal/bytealg.IndexString"] = func(fr *frame, args []value) value {
		if a, ok := args[0].(string); ok {
			if b, ok := args[1].(string); ok {
				return strings.Index(a, b)
			}
		}
		return fr.i.indexStr(strBytes(args[0]), strBytes(args[1]))
	}
	E["internal/bytealg.Index"] = func(fr *frame, args []value) value {
		return fr.i.indexStr(args[0].([]value), args[1].([]value))
	}
	E["internal/bytealg.Cutover"] = func(fr *frame, args []value) value { return int((asInt64(args[0]) + 16) / 8) }
	E["internal/stringslite.Clone"] = func(fr *frame, args []value) value { return args[0] }
	E["strings.Clone"] = func(fr *frame, args []value) value { return args[0] }
	E["bytes.IndexByte"] = E["internal/bytealg.IndexByte"]
	E["strings.IndexByte"] = E["internal/bytealg.IndexByteString"]
	delete(externals, "bytes.Equal")
	delete(externals, "bytes.IndexByte")
	delete(externals, "strings.IndexByte")
	delete(externals, "strings.Index")
	delete(externals, "strings.Count")
	delete(externals, "strings.Replace")
	delete(externals, "strings.ToLower")
	delete(externals, "strings.EqualFold")
	delete(externals, "unicode/utf8.DecodeRuneInString")
	delete(externals, "fmt.Sprint")
	delete(externals, "runtime.NumCPU")
	delete(externals, "runtime.GOMAXPROCS")
	delete(externals, "runtime.Gosched")
	delete(externals, "time.Sleep")
	delete(externals, "os.Getenv")
	delete(externals, "strconv.Atoi")
	delete(externals, "strconv.Itoa")
	delete(externals, "strconv.FormatFloat")
	delete(externals, "sort.Ints")
	delete(externals, "sort.Strings")
	delete(externals, "sort.Float64s")
	for _, n := range []string{"Abs", "Copysign", "Exp", "Float32bits", "Float32frombits", "Float64bits", "Float64frombits",
		"Inf", "IsNaN", "Ldexp", "Log", "Min", "NaN", "Sqrt"} {
		delete(externals, "math."+n)
	}

	// ---- utf8 ----
	E["unicode/utf8.DecodeRuneInString"] = func(fr *frame, args []value) value {
		if s, ok := args[0].(string); ok {
			r, n := utf8.DecodeRuneInString(s)
			return tuple{r, n}
		}
		r, n := fr.i.decodeRune(strBytes(args[0]))
		return tuple{r, n}
	}
	E["unicode/utf8.DecodeRune"] = func(fr *frame, args []value) value {
		r, n := fr.i.decodeRune(args[0].([]value))
		return tuple{r, n}
	}
	E["unicode/utf8.RuneCountInString"] = func(fr *frame, args []value) value {
		if s, ok := args[0].(string); ok {
			return utf8.RuneCountInString(s)
		}
		bs := strBytes(args[0])
		n := 0
		for len(bs) > 0 {
			_, sz := fr.i.decodeRune(bs)
			bs = bs[sz:]
			n++
		}
		return n
	}
	E["unicode/utf8.ValidString"] = func(fr *frame, args []value) value {
		if s, ok := args[0].(string); ok {
			return utf8.ValidString(s)
		}
		return notHandled
	}

	E["strings.ContainsRune"] = func(fr *frame, args []value) value {
		sv, ok := args[1].(symv)
		s, isStr := args[0].(string)
		if !ok || !isStr {
			return notHandled
		}
		c := fr.i.tc
		r32 := c.resize(sv.t, 32, true)
		res := c.tbool(false)
		for _, r := range s {
			res = c.or(res, c.eq(r32, c.konst(sBV32, uint64(uint32(r)))))
		}
		return fromTerm(res, types.Bool)
	}

	// ---- unicode classes on symbolic runes: range-set formulas ----
	uni := func(name string, tabs ...*unicode.RangeTable) {
		E["unicode."+name] = func(fr *frame, args []value) value {
			sv, ok := args[0].(symv)
			if !ok {
				return notHandled
			}
			return fromTerm(fr.i.inTables(sv.t, name, tabs), types.Bool)
		}
	}
	uni("IsLetter", unicode.Letter)
	uni("IsNumber", unicode.Number)
	uni("IsDigit", unicode.Digit)
	uni("IsUpper", unicode.Upper)
	uni("IsLower", unicode.Lower)
	uni("IsSpace", unicode.White_Space)
	uni("IsPunct", unicode.Punct)
	uni("IsControl", unicode.Cc)

	// ---- math ----
	f1 := func(name string, native func(float64) float64, sym func(i *interpreter, t *term) *term) {
		E["math."+name] = func(fr *frame, args []value) value {
			switch x := args[0].(type) {
			case float64:
				return native(x)
			case symv:
				if sym != nil {
					return fromTerm(sym(fr.i, x.t), types.Float64)
				}
				return fromTerm(fr.i.tc.ufApp("uf_math_"+name, sF64, x.t), types.Float64)
			}
			panic("math." + name + ": bad argument")
		}
	}
	f1("Floor", math.Floor, func(i *interpreter, t *term) *term { return i.tc.fpRound("RTN", t) })
	f1("Ceil", math.Ceil, func(i *interpreter, t *term) *term { return i.tc.fpRound("RTP", t) })
	f1("Trunc", math.Trunc, func(i *interpreter, t *term) *term { return i.tc.fpRound("RTZ", t) })
	f1("Round", math.Round, func(i *interpreter, t *term) *term { return i.tc.fpRound("RNA", t) })
	f1("RoundToEven", math.RoundToEven, func(i *interpreter, t *term) *term { return i.tc.fpRound("RNE", t) })
	f1("Abs", math.Abs, func(i *interpreter, t *term) *term { return i.tc.fpun("fp.abs", t) })
	f1("Sqrt", math.Sqrt, func(i *interpreter, t *term) *term { return i.tc.app("fp.sqrt RNE", sF64, t) })
	for name, fn := range map[string]func(float64) float64{
		"Sin": math.Sin, "Cos": math.Cos, "Tan": math.Tan, "Asin": math.Asin, "Acos": math.Acos, "Atan": math.Atan,
		"Exp": math.Exp, "Log": math.Log, "Log10": math.Log10, "Log2": math.Log2, "Sinh": math.Sinh, "Cosh": math.Cosh,
		"Tanh": math.Tanh, "Exp2": math.Exp2, "Cbrt": math.Cbrt, "Log1p": math.Log1p, "Expm1": math.Expm1,
	} {
		f1(name, fn, nil)
	}
	f2 := func(name string, native func(a, b float64) float64) {
		E["math."+name] = func(fr *frame, args []value) value {
			if !isSym(args[0]) && !isSym(args[1]) {
				return native(args[0].(float64), args[1].(float64))
			}
			c := fr.i.tc
			return fromTerm(c.ufApp("uf_math_"+name, sF64, c.toTerm(args[0]), c.toTerm(args[1])), types.Float64)
		}
	}
	f2("Pow", math.Pow)
	f2("Mod", math.Mod)
	f2("Atan2", math.Atan2)
	f2("Hypot", math.Hypot)
	E["math.Min"] = func(fr *frame, args []value) value {
		if !isSym(args[0]) && !isSym(args[1]) {
			return math.Min(args[0].(float64), args[1].(float64))
		}
		return fr.i.minmax(true)(args[0], args[1])
	}
	E["math.Max"] = func(fr *frame, args []value) value {
		if !isSym(args[0]) && !isSym(args[1]) {
			return math.Max(args[0].(float64), args[1].(float64))
		}
		return fr.i.minmax(false)(args[0], args[1])
	}
	E["math.IsNaN"] = func(fr *frame, args []value) value {
		if sv, ok := args[0].(symv); ok {
			return fromTerm(fr.i.tc.fpIsNaN(sv.t), types.Bool)
		}
		return math.IsNaN(args[0].(float64))
	}
	E["math.IsInf"] = func(fr *frame, args []value) value {
		sign := int(asInt64(args[1]))
		if sv, ok := args[0].(symv); ok {
			c := fr.i.tc
			inf := c.fpIsInf(sv.t)
			switch {
			case sign > 0:
				inf = c.and(inf, c.fpcmp("fp.gt", sv.t, c.fconst64(0)))
			case sign < 0:
				inf = c.and(inf, c.fpcmp("fp.lt", sv.t, c.fconst64(0)))
			}
			return fromTerm(inf, types.Bool)
		}
		return math.IsInf(args[0].(float64), sign)
	}
	E["math.Inf"] = func(fr *frame, args []value) value { return math.Inf(int(asInt64(args[0]))) }
	E["math.NaN"] = func(fr *frame, args []value) value { return math.NaN() }
	E["math.Float64bits"] = func(fr *frame, args []value) value {
		if sv, ok := args[0].(symv); ok {
			t := sv.t
			if strings.HasPrefix(t.op, "(_ to_fp 11 53)") && len(t.args) == 1 && t.args[0].s == sBV64 {
				return fromTerm(t.args[0], types.Uint64)
			}
			// fresh bits constrained to denote t (NaN payload unconstrained)
			c := fr.i.tc
			b := c.freshVar("fbits", sBV64)
			fr.i.addPC(c.or(c.and(c.fpIsNaN(t), c.fpIsNaN(c.bvToFp(b))), c.app("=", sBool, c.bvToFp(b), t)))
			return symv{b, types.Uint64}
		}
		return math.Float64bits(args[0].(float64))
	}
	E["math.Float64frombits"] = func(fr *frame, args []value) value {
		if sv, ok := args[0].(symv); ok {
			return fromTerm(fr.i.tc.bvToFp(sv.t), types.Float64)
		}
		return math.Float64frombits(args[0].(uint64))
	}
	E["math.Float32bits"] = func(fr *frame, args []value) value { return math.Float32bits(args[0].(float32)) }
	E["math.Float32frombits"] = func(fr *frame, args []value) value { return math.Float32frombits(args[0].(uint32)) }
	E["math.Signbit"] = func(fr *frame, args []value) value {
		if sv, ok := args[0].(symv); ok {
			return fromTerm(fr.i.tc.app("fp.isNegative", sBool, sv.t), types.Bool)
		}
		return math.Signbit(args[0].(float64))
	}
	E["math.Copysign"] = func(fr *frame, args []value) value {
		if !isSym(args[0]) && !isSym(args[1]) {
			return math.Copysign(args[0].(float64), args[1].(float64))
		}
		c := fr.i.tc
		a, b := c.toTerm(args[0]), c.toTerm(args[1])
		abs := c.fpun("fp.abs", a)
		return fromTerm(c.ite(c.app("fp.isNegative", sBool, b), c.fpun("fp.neg", abs), abs), types.Float64)
	}
	E["math.Ldexp"] = func(fr *frame, args []value) value {
		if anySym(args) {
			return notHandled
		}
		return math.Ldexp(args[0].(float64), int(asInt64(args[1])))
	}

	// ---- strconv: native on concrete arguments, interpreted from source otherwise ----
	E["strconv.Itoa"] = func(fr *frame, args []value) value {
		if anySym(args) {
			return notHandled
		}
		return strconv.Itoa(int(asInt64(args[0])))
	}
	E["strconv.FormatInt"] = func(fr *frame, args []value) value {
		if anySym(args) {
			return notHandled
		}
		return strconv.FormatInt(asInt64(args[0]), int(asInt64(args[1])))
	}
	E["strconv.FormatFloat"] = func(fr *frame, args []value) value {
		if sv, ok := args[0].(symv); ok {
			// concretise the float: formatting is not modelled symbolically
			u := fr.i.concretize(fr.i.floatBits(sv.t), false, fr.i.cfg.MaxConcretize, "strconv.FormatFloat argument")
			args = append([]value{math.Float64frombits(u)}, args[1:]...)
		}
		if anySym(args) {
			return notHandled
		}
		return strconv.FormatFloat(args[0].(float64), byte(asInt64(args[1])), int(asInt64(args[2])), int(asInt64(args[3])))
	}
	errOf := func(fr *frame, err error) value {
		if err == nil {
			return iface{}
		}
		// *strconv.NumError built by the interpreted code would be identical in
		// behaviour; an errors.New value keeps Error() text and non-nilness
		return fr.i.newError(fr, err.Error())
	}
	E["strconv.Atoi"] = func(fr *frame, args []value) value {
		s, ok := args[0].(string)
		if !ok {
			return notHandled
		}
		n, err := strconv.Atoi(s)
		return tuple{n, errOf(fr, err)}
	}
	E["strconv.ParseInt"] = func(fr *frame, args []value) value {
		s, ok := args[0].(string)
		if !ok || anySym(args[1:]) {
			return notHandled
		}
		n, err := strconv.ParseInt(s, int(asInt64(args[1])), int(asInt64(args[2])))
		return tuple{n, errOf(fr, err)}
	}
	E["strconv.ParseFloat"] = func(fr *frame, args []value) value {
		s, ok := args[0].(string)
		if !ok {
			// symbolic digits: concretise the text (bounded), then parse natively
			bs := strBytes(args[0])
			buf := make([]byte, len(bs))
			for k, b := range bs {
				switch b := b.(type) {
				case uint8:
					buf[k] = b
				case symv:
					buf[k] = byte(fr.i.concretize(b.t, false, fr.i.cfg.MaxConcretize, "strconv.ParseFloat text"))
				}
			}
			s = string(buf)
		}
		f, err := strconv.ParseFloat(s, int(asInt64(args[1])))
		return tuple{f, errOf(fr, err)}
	}
	E["strconv.Quote"] = func(fr *frame, args []value) value {
		s, ok := args[0].(string)
		if !ok {
			return notHandled
		}
		return strconv.Quote(s)
	}

	// ---- sort.Slice & friends (reflectlite swapper) ----
	E["internal/reflectlite.Swapper"] = func(fr *frame, args []value) value {
		s := args[0].(iface).v.([]value)
		return nativeFn(func(fr *frame, a []value) value {
			x, y := asInt64(a[0]), asInt64(a[1])
			s[x], s[y] = s[y], s[x]
			return nil
		})
	}
	E["internal/reflectlite.ValueOf"] = func(fr *frame, args []value) value { return structure{args[0], nil, nil} }
	E["(internal/reflectlite.Value).Len"] = func(fr *frame, args []value) value {
		return len(args[0].(structure)[0].(iface).v.([]value))
	}

	// ---- errors ----
	E["errors.Is"] = nil
	delete(E, "errors.Is")
}

// ---- helpers used by the externals ----

func nanValue() float64 { return math.NaN() }

func (i *interpreter) floatBits(t *term) *term {
	if strings.HasPrefix(t.op, "(_ to_fp 11 53)") && len(t.args) == 1 && t.args[0].s == sBV64 {
		return t.args[0]
	}
	c := i.tc
	b := c.freshVar("fbits", sBV64)
	i.addPC(c.or(c.and(c.fpIsNaN(t), c.fpIsNaN(c.bvToFp(b))), c.app("=", sBool, c.bvToFp(b), t)))
	return b
}

func (i *interpreter) newError(fr *frame, msg value) value {
	ep := i.prog.ImportedPackage("errors")
	return call(i, fr, token.NoPos, ep.Func("New"), []value{msg})
}

// showStr renders a possibly symbolic string for notes.
func (i *interpreter) showStr(v value) string {
	switch s := v.(type) {
	case string:
		return s
	case symstr:
		var sb strings.Builder
		for _, b := range s {
			if c, ok := b.(uint8); ok {
				sb.WriteByte(c)
			} else {
				sb.WriteString("⟨?⟩")
			}
		}
		return sb.String()
	}
	return toString(v)
}

func (i *interpreter) indexByte(bs []value, c value) value {
	tc := i.tc
	ct := tc.toTerm(c)
	for k, b := range bs {
		if i.decide(tc.eq(tc.toTerm(b), ct)) {
			return k
		}
	}
	return -1
}

func (i *interpreter) indexStr(a, b []value) value {
	n := len(b)
	for k := 0; k+n <= len(a); k++ {
		if i.decide(i.strEqTerm(mkstr(a[k:k+n]), mkstr(b))) {
			return k
		}
	}
	return -1
}

func (i *interpreter) lastIndexByte(bs []value, c value) value {
	tc := i.tc
	ct := tc.toTerm(c)
	for k := len(bs) - 1; k >= 0; k-- {
		if i.decide(tc.eq(tc.toTerm(bs[k]), ct)) {
			return k
		}
	}
	return -1
}

func (i *interpreter) countByte(bs []value, c value) value {
	tc := i.tc
	ct := tc.toTerm(c)
	n := tc.konst(sBV64, 0)
	for _, b := range bs {
		n = tc.bvbin("bvadd", n, tc.ite(tc.eq(tc.toTerm(b), ct), tc.konst(sBV64, 1), tc.konst(sBV64, 0)))
	}
	return fromTerm(n, types.Int)
}

func (i *interpreter) strCompare(a, b value) value {
	c := i.tc
	lt := i.strLtTerm(a, b)
	eq := i.strEqTerm(a, b)
	r := c.ite(eq, c.konst(sBV64, 0), c.ite(lt, c.konst(sBV64, ^uint64(0)), c.konst(sBV64, 1)))
	return fromTerm(r, types.Int)
}

// inTables builds (and caches) the formula "rune r is in one of the range tables".
func (i *interpreter) inTables(r *term, name string, tabs []*unicode.RangeTable) *term {
	c := i.tc
	r32 := c.resize(r, 32, true)
	k := func(v uint32) *term { return c.konst(sBV32, uint64(v)) }
	res := c.tbool(false)
	add := func(lo, hi, stride uint32) {
		var t *term
		if lo == hi {
			t = c.eq(r32, k(lo))
		} else {
			t = c.and(c.bvcmp("bvuge", r32, k(lo)), c.bvcmp("bvule", r32, k(hi)))
			if stride > 1 {
				t = c.and(t, c.eq(c.bvbin("bvurem", c.bvbin("bvsub", r32, k(lo)), k(stride)), k(0)))
			}
		}
		res = c.or(res, t)
	}
	for _, tab := range tabs {
		for _, rg := range tab.R16 {
			add(uint32(rg.Lo), uint32(rg.Hi), uint32(rg.Stride))
		}
		for _, rg := range tab.R32 {
			add(rg.Lo, rg.Hi, rg.Stride)
		}
	}
	if name == "IsSpace" {
		// unicode.IsSpace's Latin-1 fast path is identical to White_Space
	}
	return res
}

// boundedIndex checks 0 <= idx < n (forking on the bound for symbolic idx) and
// returns a concrete index, concretising symbolic ones.
func (i *interpreter) boundedIndex(idx value, n int) int {
	sv, ok := idx.(symv)
	if !ok {
		k := asInt64(idx)
		if k < 0 || k >= int64(n) {
			panic(runtimeErr(fmt.Sprintf("runtime error: index out of range [%d] with length %d", k, n)))
		}
		return int(k)
	}
	c := i.tc
	t := c.resize(sv.t, 64, kindSigned(sv.k))
	inr := c.bvcmp("bvult", t, c.konst(sBV64, uint64(n)))
	if !i.decide(inr) {
		panic(runtimeErr(fmt.Sprintf("runtime error: index out of range [symbolic] with length %d", n)))
	}
	return int(i.concretize(t, false, i.cfg.MaxConcretize, "slice index"))
}

// indexScalar reads xs[idx]; for a symbolic idx over scalar elements it builds an ite chain.
func (i *interpreter) indexScalar(xs []value, idx value) value {
	sv, ok := idx.(symv)
	if !ok {
		k := asInt64(idx)
		if k < 0 || k >= int64(len(xs)) {
			panic(runtimeErr(fmt.Sprintf("runtime error: index out of range [%d] with length %d", k, len(xs))))
		}
		return xs[k]
	}
	c := i.tc
	t := c.resize(sv.t, 64, kindSigned(sv.k))
	inr := c.bvcmp("bvult", t, c.konst(sBV64, uint64(len(xs))))
	if !i.decide(inr) {
		panic(runtimeErr(fmt.Sprintf("runtime error: index out of range [symbolic] with length %d", len(xs))))
	}
	if len(xs) == 0 {
		panic("indexScalar: empty")
	}
	k0, scalar := kindOf(xs[0])
	if scalar && len(xs) <= 512 {
		for _, x := range xs {
			if k, ok := kindOf(x); !ok || k != k0 {
				scalar = false
				break
			}
		}
	}
	if scalar && len(xs) <= 512 {
		// group equal consecutive values to keep the chain short
		r := c.toTerm(xs[len(xs)-1])
		for k := len(xs) - 2; k >= 0; k-- {
			xt := c.toTerm(xs[k])
			if xt == r {
				continue
			}
			r = c.ite(c.bvcmp("bvule", t, c.konst(sBV64, uint64(k))), xt, r)
		}
		return fromTerm(r, k0)
	}
	return xs[i.concretize(t, false, i.cfg.MaxConcretize, "index")]
}

// ---- fmt emulation ----

type nativeStr struct{ s string }

func (n nativeStr) String() string { return n.s }

type nativeErr struct{ s string }

func (n nativeErr) Error() string { return n.s }

// nativeArg converts an interpreted value into a native Go value for fmt.
// verb is the format verb that will consume it ('v' for Sprint).
func (i *interpreter) nativeArg(fr *frame, v value, verb rune) (any, bool) {
	itf, ok := v.(iface)
	if !ok {
		return toString(v), false
	}
	if itf.t == nil {
		return nil, false
	}
	if containsSym(itf.v) {
		return "⟨sym⟩", true
	}
	if strings.ContainsRune("svqxX", verb) {
		// error and Stringer take precedence for string-like verbs
		for _, mname := range []string{"Error", "String"} {
			if m := i.prog.MethodSets.MethodSet(itf.t).Lookup(nil, mname); m != nil {
				if sig := m.Type().(*types.Signature); sig.Params().Len() == 0 && sig.Results().Len() == 1 {
					if b, ok := sig.Results().At(0).Type().Underlying().(*types.Basic); ok && b.Kind() == types.String {
						if p, isPtr := itf.v.(*value); isPtr && p == nil {
							return "<nil>", false
						}
						fn := i.prog.MethodValue(m)
						if fn != nil {
							res := call(i, fr, token.NoPos, fn, []value{itf.v})
							if ss, isSym := res.(symstr); isSym {
								return i.showStr(ss), true
							}
							if mname == "Error" {
								return nativeErr{res.(string)}, false
							}
							return nativeStr{res.(string)}, false
						}
					}
				}
			}
		}
	}
	switch x := itf.v.(type) {
	case bool, int, int8, int16, int32, int64, uint, uint8, uint16, uint32, uint64, uintptr, float32, float64, string, complex64, complex128:
		return x, false
	case []value:
		// []byte / []string …
		out := make([]any, len(x))
		allBytes := len(x) > 0
		for k, e := range x {
			if b, ok := e.(uint8); ok {
				out[k] = b
			} else {
				allBytes = false
				out[k], _ = i.nativeArg(fr, iface{t: elemType(itf.t), v: e}, verb)
			}
		}
		if allBytes {
			bs := make([]byte, len(x))
			for k := range x {
				bs[k] = x[k].(uint8)
			}
			return bs, false
		}
		return out, false
	case rtype:
		return nativeStr{x.t.String()}, false
	}
	return toString(itf.v), false
}

func elemType(t types.Type) types.Type {
	switch u := t.Underlying().(type) {
	case *types.Slice:
		return u.Elem()
	case *types.Array:
		return u.Elem()
	}
	return types.Typ[types.Invalid]
}

// verbsOf returns the verbs of a format string in argument order (no * / [n] support needed here).
func verbsOf(format string) []rune {
	var vs []rune
	for k := 0; k < len(format); k++ {
		if format[k] != '%' {
			continue
		}
		k++
		for k < len(format) && strings.IndexByte("+-# 0123456789.", format[k]) >= 0 {
			k++
		}
		if k >= len(format) {
			break
		}
		if format[k] == '%' {
			continue
		}
		r, sz := utf8.DecodeRuneInString(format[k:])
		vs = append(vs, r)
		k += sz - 1
	}
	return vs
}

func (i *interpreter) sprintf(fr *frame, format string, args []value) value {
	vs := verbsOf(format)
	nat := make([]any, len(args))
	for k, a := range args {
		verb := 'v'
		if k < len(vs) {
			verb = vs[k]
		}
		if verb == 'w' {
			verb = 'v'
		}
		nat[k], _ = i.nativeArg(fr, a, verb)
	}
	return fmt.Sprintf(strings.ReplaceAll(format, "%w", "%v"), nat...)
}

func (i *interpreter) sprint(fr *frame, args []value, ln bool) value {
	nat := make([]any, len(args))
	for k, a := range args {
		nat[k], _ = i.nativeArg(fr, a, 'v')
	}
	if ln {
		return fmt.Sprintln(nat...)
	}
	return fmt.Sprint(nat...)
}

func (i *interpreter) errorf(fr *frame, format string, args []value) value {
	msg := i.sprintf(fr, format, args)
	vs := verbsOf(format)
	for k, v := range vs {
		if v == 'w' && k < len(args) {
			if fp := i.prog.ImportedPackage("fmt"); fp != nil {
				if wt := fp.Type("wrapError"); wt != nil {
					cell := value(structure{msg, args[k]})
					return iface{t: types.NewPointer(wt.Type()), v: &cell}
				}
			}
		}
	}
	return i.newError(fr, msg)
}

// ---- monitor hooks ----

func (i *interpreter) where(fr *frame, instr ssa.Instruction) func() string {
	return func() string {
		pos := instr.Pos()
		if pos == token.NoPos {
			return fr.fn.String()
		}
		p := i.prog.Fset.Position(pos)
		f := p.Filename
		if k := strings.LastIndex(f, "/"); k >= 0 {
			if k2 := strings.LastIndex(f[:k], "/"); k2 >= 0 {
				f = f[k2+1:]
			}
		}
		return fmt.Sprintf("%s:%d (%s)", f, p.Line, fr.fn.Name())
	}
}

func (i *interpreter) onLoad(fr *frame, instr ssa.Instruction, addr *value) {
	if i.race != nil && i.race.on {
		i.raceAccess(addr, false, i.where(fr, instr))
	}
}

func (i *interpreter) onStore(fr *frame, instr ssa.Instruction, addr *value) {
	if i.race != nil && i.race.on {
		i.raceAccess(addr, true, i.where(fr, instr))
	}
	if p := i.path; p.frozenOn && p.frozen[addr] {
		i.frozenHit(i.where(fr, instr)())
	}
}

func (i *interpreter) onSliceWrite(fr *frame, s []value, from, n int) {
	p := i.path
	if !p.frozenOn && (i.race == nil || !i.race.on) {
		return
	}
	full := s[:cap(s)]
	for k := from; k < from+n && k < len(full); k++ {
		addr := &full[k]
		if p.frozenOn && p.frozen[addr] {
			i.frozenHit("append/copy in " + fr.fn.String())
		}
		if i.race != nil && i.race.on {
			i.raceAccess(addr, true, func() string { return "append/copy in " + fr.fn.String() })
		}
	}
}

func (i *interpreter) onMapWrite(fr *frame, m *omap) {
	if p := i.path; p.frozenOn && p.frozenMaps[m] {
		i.frozenHit("map update in " + fr.fn.String())
	}
}

func (i *interpreter) frozenHit(where string) {
	p := i.path
	if p.frozenHits == nil {
		p.frozenHits = map[string]bool{}
	}
	if p.frozenHits[where] {
		return
	}
	p.frozenHits[where] = true
	i.findingHere("frozen-store", "frozen-store", "store to state shared across evaluations at "+where)
}

// mark implements sym.Mark.
func (i *interpreter) mark(fr *frame, what string) {
	p := i.path
	switch {
	case what == "freeze":
		p.frozen = map[*value]bool{}
		p.frozenMaps = map[*omap]bool{}
		seen := map[any]bool{}
		// roots: all globals of target packages and every value reachable from the caller's frames
		for g, cell := range i.globals {
			if g.Pkg != nil && i.isTarget(g.Pkg) && !strings.HasPrefix(g.Pkg.Pkg.Path(), "verifharness/sym") {
				i.freezeWalk(cell, seen)
			}
		}
		for f := fr.caller; f != nil; f = f.caller {
			for _, v := range f.env {
				i.freezeVal(v, seen)
			}
		}
		p.frozenOn = true
	case what == "quiesce":
		// let every other goroutine run until it finishes or blocks; runaway
		// goroutines are preempted after a time slice, the whole phase is bounded
		s := i.sched
		i.noFork = true
		defer func() { i.noFork = false }()
		s.quantum = 4000
		s.sliceEnd = i.path.steps + s.quantum
		for round := 0; round < 25; round++ {
			any := false
			for _, g := range s.gs {
				if g != s.cur && g.state == gRunnable {
					any = true
				}
			}
			if !any {
				break
			}
			s.yield()
		}
		s.quantum = 0
	case what == "unfreeze":
		p.frozenOn = false
	case what == "race-on":
		if i.race == nil {
			i.race = newRaceMonitor()
		}
		i.race.on = true
	case what == "race-off":
		if i.race != nil {
			i.race.on = false
		}
	}
}

func (i *interpreter) freezeWalk(cell *value, seen map[any]bool) {
	if cell == nil || seen[cell] {
		return
	}
	seen[cell] = true
	i.path.frozen[cell] = true
	i.freezeVal(*cell, seen)
}

func (i *interpreter) freezeVal(v value, seen map[any]bool) {
	switch v := v.(type) {
	case *value:
		i.freezeWalk(v, seen)
	case structure:
		for k := range v {
			i.path.frozen[&v[k]] = true
			i.freezeVal(v[k], seen)
		}
	case array:
		for k := range v {
			i.path.frozen[&v[k]] = true
			i.freezeVal(v[k], seen)
		}
	case []value:
		if cap(v) == 0 {
			return
		}
		full := v[:cap(v)]
		key := &full[0]
		if seen[key] {
			return
		}
		seen[key] = true
		for k := range full {
			i.path.frozen[&full[k]] = true
			if k < len(v) {
				i.freezeVal(full[k], seen)
			}
		}
	case iface:
		i.freezeVal(v.v, seen)
	case *closure:
		if v == nil || seen[v] {
			return
		}
		seen[v] = true
		for k := range v.Env {
			i.freezeVal(v.Env[k], seen)
		}
	case *omap:
		if v == nil || seen[v] {
			return
		}
		seen[v] = true
		i.path.frozenMaps[v] = true
		for _, e := range v.entries {
			if !e.deleted {
				i.freezeVal(e.key, seen)
				i.freezeVal(e.val, seen)
			}
		}
	case tuple:
		for k := range v {
			i.freezeVal(v[k], seen)
		}
	}
}
