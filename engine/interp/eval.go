package interp

// Concrete evaluation of Bool/bit-vector terms under a model (used to avoid
// feasibility queries: a cached model of the path condition that makes a
// branch condition true proves that side feasible without a solver call).

import (
	"strconv"
	"strings"
)

type evalCtx struct {
	model map[string]uint64
	memo  map[*term]uint64
	bad   map[*term]bool
}

func newEvalCtx(model map[string]uint64) *evalCtx {
	return &evalCtx{model: model, memo: map[*term]uint64{}, bad: map[*term]bool{}}
}

// eval returns the value of t (bits) and whether it could be computed.
func (e *evalCtx) eval(t *term) (uint64, bool) {
	if t.op == "const" {
		if t.s.isFP() {
			return 0, false
		}
		return t.cv, true
	}
	if v, ok := e.memo[t]; ok {
		return v, true
	}
	if e.bad[t] {
		return 0, false
	}
	v, ok := e.eval1(t)
	if ok {
		e.memo[t] = v & mask(t.s.width())
		return e.memo[t], true
	}
	e.bad[t] = true
	return 0, false
}

func (e *evalCtx) eval1(t *term) (uint64, bool) {
	if t.s.isFP() || t.uf {
		return 0, false
	}
	if t.op == "var" {
		v, ok := e.model[t.name]
		return v, ok
	}
	var a [3]uint64
	if len(t.args) > 3 {
		return 0, false
	}
	// ite evaluates lazily
	if t.op == "ite" {
		c, ok := e.eval(t.args[0])
		if !ok {
			return 0, false
		}
		if c != 0 {
			return e.eval(t.args[1])
		}
		return e.eval(t.args[2])
	}
	for k, x := range t.args {
		if x.s.isFP() {
			return 0, false
		}
		v, ok := e.eval(x)
		if !ok {
			return 0, false
		}
		a[k] = v
	}
	b2u := func(b bool) uint64 {
		if b {
			return 1
		}
		return 0
	}
	w := 0
	if len(t.args) > 0 {
		w = t.args[0].s.width()
	}
	sx := func(v uint64) int64 { return sext64(v, w) }
	switch t.op {
	case "not":
		return b2u(a[0] == 0), true
	case "and":
		return b2u(a[0] != 0 && a[1] != 0), true
	case "or":
		return b2u(a[0] != 0 || a[1] != 0), true
	case "=":
		return b2u(a[0] == a[1]), true
	case "bvadd":
		return a[0] + a[1], true
	case "bvsub":
		return a[0] - a[1], true
	case "bvmul":
		return a[0] * a[1], true
	case "bvand":
		return a[0] & a[1], true
	case "bvor":
		return a[0] | a[1], true
	case "bvxor":
		return a[0] ^ a[1], true
	case "bvneg":
		return -a[0], true
	case "bvnot":
		return ^a[0], true
	case "bvshl":
		if a[1] >= uint64(w) {
			return 0, true
		}
		return a[0] << a[1], true
	case "bvlshr":
		if a[1] >= uint64(w) {
			return 0, true
		}
		return a[0] >> a[1], true
	case "bvashr":
		s := a[1]
		if s >= uint64(w) {
			s = uint64(w - 1)
		}
		return uint64(sx(a[0]) >> s), true
	case "bvudiv":
		if a[1] == 0 {
			return mask(w), true
		}
		return a[0] / a[1], true
	case "bvurem":
		if a[1] == 0 {
			return a[0], true
		}
		return a[0] % a[1], true
	case "bvsdiv":
		x, y := sx(a[0]), sx(a[1])
		if y == 0 {
			if x >= 0 {
				return mask(w), true
			}
			return 1, true
		}
		if y == -1 {
			return uint64(-x), true
		}
		return uint64(x / y), true
	case "bvsrem":
		x, y := sx(a[0]), sx(a[1])
		if y == 0 {
			return a[0], true
		}
		if y == -1 {
			return 0, true
		}
		return uint64(x % y), true
	case "bvult":
		return b2u(a[0] < a[1]), true
	case "bvule":
		return b2u(a[0] <= a[1]), true
	case "bvugt":
		return b2u(a[0] > a[1]), true
	case "bvuge":
		return b2u(a[0] >= a[1]), true
	case "bvslt":
		return b2u(sx(a[0]) < sx(a[1])), true
	case "bvsle":
		return b2u(sx(a[0]) <= sx(a[1])), true
	case "bvsgt":
		return b2u(sx(a[0]) > sx(a[1])), true
	case "bvsge":
		return b2u(sx(a[0]) >= sx(a[1])), true
	}
	if strings.HasPrefix(t.op, "(_ extract ") {
		return a[0], true // only extract n-1..0 is generated; masking happens in eval
	}
	if strings.HasPrefix(t.op, "(_ zero_extend ") {
		return a[0], true
	}
	if strings.HasPrefix(t.op, "(_ sign_extend ") {
		return uint64(sx(a[0])), true
	}
	_ = strconv.Itoa
	return 0, false
}
