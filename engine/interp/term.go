package interp

// Hash-consed SMT term DAG with light simplification and SMT-LIB2 printing.
//
// Sorts: Bool, bit-vectors of the Go integer widths, IEEE Float32/Float64.
// Every symbolic *input* is a Bool or bit-vector constant (floats are declared
// as their IEEE bit pattern and reinterpreted with to_fp) so that models are
// read back without parsing floating-point literals.

import (
	"fmt"
	"math"
	"math/bits"
	"strconv"
	"strings"
)

type tsort uint8

const (
	sBool tsort = iota
	sBV8
	sBV16
	sBV32
	sBV64
	sF32
	sF64
)

func (s tsort) width() int {
	switch s {
	case sBool:
		return 1
	case sBV8:
		return 8
	case sBV16:
		return 16
	case sBV32, sF32:
		return 32
	case sBV64, sF64:
		return 64
	}
	panic("width")
}

func (s tsort) smt() string {
	switch s {
	case sBool:
		return "Bool"
	case sBV8:
		return "(_ BitVec 8)"
	case sBV16:
		return "(_ BitVec 16)"
	case sBV32:
		return "(_ BitVec 32)"
	case sBV64:
		return "(_ BitVec 64)"
	case sF32:
		return "(_ FloatingPoint 8 24)"
	case sF64:
		return "(_ FloatingPoint 11 53)"
	}
	panic("sort")
}

func bvSort(w int) tsort {
	switch w {
	case 8:
		return sBV8
	case 16:
		return sBV16
	case 32:
		return sBV32
	case 64:
		return sBV64
	}
	panic(fmt.Sprintf("bvSort %d", w))
}

func (s tsort) isBV() bool { return s >= sBV8 && s <= sBV64 }
func (s tsort) isFP() bool { return s == sF32 || s == sF64 }

type term struct {
	op   string // "var", "const", or an SMT-LIB operator (possibly indexed, e.g. "(_ extract 7 0)")
	args []*term
	s    tsort
	name string // var
	cv   uint64 // const: value bits (masked to width); floats: IEEE bits
	id   int
	uf   bool // op is an uninterpreted function that needs a declaration
}

func (t *term) isConst() bool { return t.op == "const" }
func (t *term) isTrue() bool  { return t.op == "const" && t.s == sBool && t.cv == 1 }
func (t *term) isFalse() bool { return t.op == "const" && t.s == sBool && t.cv == 0 }

// tctx is a hash-consing context (one per worker, never shared).
type tctx struct {
	tab   map[string]*term
	n     int
	vars  []*term
	ufs   map[string]string // uf name -> declaration
	fresh int
}

func newTctx() *tctx {
	return &tctx{tab: map[string]*term{}, ufs: map[string]string{}}
}

func (c *tctx) intern(t *term) *term {
	var sb strings.Builder
	sb.WriteString(t.op)
	sb.WriteByte('|')
	sb.WriteByte(byte('0' + t.s))
	if t.op == "var" {
		sb.WriteString(t.name)
	} else if t.op == "const" {
		sb.WriteString(strconv.FormatUint(t.cv, 16))
	} else {
		for _, a := range t.args {
			sb.WriteByte(',')
			sb.WriteString(strconv.Itoa(a.id))
		}
	}
	k := sb.String()
	if old, ok := c.tab[k]; ok {
		return old
	}
	c.n++
	t.id = c.n
	c.tab[k] = t
	if t.op == "var" {
		c.vars = append(c.vars, t)
	}
	return t
}

func mask(w int) uint64 {
	if w >= 64 {
		return ^uint64(0)
	}
	return (uint64(1) << uint(w)) - 1
}

func (c *tctx) konst(s tsort, v uint64) *term {
	return c.intern(&term{op: "const", s: s, cv: v & mask(s.width())})
}
func (c *tctx) tbool(b bool) *term {
	if b {
		return c.konst(sBool, 1)
	}
	return c.konst(sBool, 0)
}
func (c *tctx) mkvar(name string, s tsort) *term {
	return c.intern(&term{op: "var", s: s, name: name})
}
func (c *tctx) freshVar(prefix string, s tsort) *term {
	c.fresh++
	return c.mkvar(fmt.Sprintf("%s!%d", prefix, c.fresh), s)
}
func (c *tctx) app(op string, s tsort, args ...*term) *term {
	return c.intern(&term{op: op, s: s, args: args})
}

// ---- boolean connectives ----

func (c *tctx) not(a *term) *term {
	if a.isConst() {
		return c.tbool(a.cv == 0)
	}
	if a.op == "not" {
		return a.args[0]
	}
	return c.app("not", sBool, a)
}
func (c *tctx) and(a, b *term) *term {
	if a.isFalse() || b.isFalse() {
		return c.tbool(false)
	}
	if a.isTrue() {
		return b
	}
	if b.isTrue() {
		return a
	}
	if a == b {
		return a
	}
	return c.app("and", sBool, a, b)
}
func (c *tctx) or(a, b *term) *term {
	if a.isTrue() || b.isTrue() {
		return c.tbool(true)
	}
	if a.isFalse() {
		return b
	}
	if b.isFalse() {
		return a
	}
	if a == b {
		return a
	}
	return c.app("or", sBool, a, b)
}
func (c *tctx) implies(a, b *term) *term { return c.or(c.not(a), b) }
func (c *tctx) ite(cond, a, b *term) *term {
	if cond.isTrue() {
		return a
	}
	if cond.isFalse() {
		return b
	}
	if a == b {
		return a
	}
	if a.s == sBool {
		if a.isTrue() && b.isFalse() {
			return cond
		}
		if a.isFalse() && b.isTrue() {
			return c.not(cond)
		}
	}
	return c.app("ite", a.s, cond, a, b)
}

// eq is structural/bit equality for Bool and BV, and IEEE equality must use fpEq.
func (c *tctx) eq(a, b *term) *term {
	if a.s != b.s {
		panic(fmt.Sprintf("eq: sort mismatch %v %v", a.s, b.s))
	}
	if a.s.isFP() {
		panic("eq on FP: use fpcmp")
	}
	if a == b {
		return c.tbool(true)
	}
	if a.isConst() && b.isConst() {
		return c.tbool(a.cv == b.cv)
	}
	if a.s == sBool {
		if a.isConst() {
			a, b = b, a
		}
		if b.isTrue() {
			return a
		}
		if b.isFalse() {
			return c.not(a)
		}
	}
	if a.id > b.id {
		a, b = b, a
	}
	return c.app("=", sBool, a, b)
}

// ---- bit-vectors ----

func sext64(v uint64, w int) int64 {
	sh := uint(64 - w)
	return int64(v<<sh) >> sh
}

// bvbin builds a binary BV operation with constant folding and neutral elements.
func (c *tctx) bvbin(op string, a, b *term) *term {
	if a.s != b.s {
		panic(fmt.Sprintf("bvbin %s: sort mismatch %v %v", op, a.s, b.s))
	}
	w := a.s.width()
	if a.isConst() && b.isConst() {
		x, y := a.cv, b.cv
		var r uint64
		ok := true
		switch op {
		case "bvadd":
			r = x + y
		case "bvsub":
			r = x - y
		case "bvmul":
			r = x * y
		case "bvand":
			r = x & y
		case "bvor":
			r = x | y
		case "bvxor":
			r = x ^ y
		case "bvshl":
			if y >= uint64(w) {
				r = 0
			} else {
				r = x << y
			}
		case "bvlshr":
			if y >= uint64(w) {
				r = 0
			} else {
				r = x >> y
			}
		case "bvashr":
			sx := sext64(x, w)
			if y >= uint64(w) {
				y = uint64(w - 1)
			}
			r = uint64(sx >> y)
		case "bvudiv":
			if y == 0 {
				r = mask(w)
			} else {
				r = x / y
			}
		case "bvurem":
			if y == 0 {
				r = x
			} else {
				r = x % y
			}
		case "bvsdiv":
			sx, sy := sext64(x, w), sext64(y, w)
			if sy == 0 {
				if sx >= 0 {
					r = mask(w)
				} else {
					r = 1
				}
			} else if sy == -1 {
				r = uint64(-sx)
			} else {
				r = uint64(sx / sy)
			}
		case "bvsrem":
			sx, sy := sext64(x, w), sext64(y, w)
			if sy == 0 {
				r = x
			} else if sy == -1 {
				r = 0
			} else {
				r = uint64(sx % sy)
			}
		default:
			ok = false
		}
		if ok {
			return c.konst(a.s, r)
		}
	}
	zero := func(t *term) bool { return t.isConst() && t.cv == 0 }
	switch op {
	case "bvadd", "bvor", "bvxor":
		if zero(a) {
			return b
		}
		if zero(b) {
			return a
		}
	case "bvsub", "bvshl", "bvlshr", "bvashr":
		if zero(b) {
			return a
		}
	case "bvmul":
		if a.isConst() && a.cv == 1 {
			return b
		}
		if b.isConst() && b.cv == 1 {
			return a
		}
		if zero(a) || zero(b) {
			return c.konst(a.s, 0)
		}
	case "bvand":
		if zero(a) || zero(b) {
			return c.konst(a.s, 0)
		}
		if a.isConst() && a.cv == mask(w) {
			return b
		}
		if b.isConst() && b.cv == mask(w) {
			return a
		}
	}
	return c.app(op, a.s, a, b)
}

func (c *tctx) bvun(op string, a *term) *term {
	if a.isConst() {
		switch op {
		case "bvneg":
			return c.konst(a.s, -a.cv)
		case "bvnot":
			return c.konst(a.s, ^a.cv)
		}
	}
	return c.app(op, a.s, a)
}

// bvcmp: op in bvult bvule bvugt bvuge bvslt bvsle bvsgt bvsge
func (c *tctx) bvcmp(op string, a, b *term) *term {
	if a.s != b.s {
		panic(fmt.Sprintf("bvcmp %s: sort mismatch", op))
	}
	if a.isConst() && b.isConst() {
		w := a.s.width()
		x, y := a.cv, b.cv
		sx, sy := sext64(x, w), sext64(y, w)
		var r bool
		switch op {
		case "bvult":
			r = x < y
		case "bvule":
			r = x <= y
		case "bvugt":
			r = x > y
		case "bvuge":
			r = x >= y
		case "bvslt":
			r = sx < sy
		case "bvsle":
			r = sx <= sy
		case "bvsgt":
			r = sx > sy
		case "bvsge":
			r = sx >= sy
		}
		return c.tbool(r)
	}
	if a == b {
		switch op {
		case "bvule", "bvuge", "bvsle", "bvsge":
			return c.tbool(true)
		default:
			return c.tbool(false)
		}
	}
	return c.app(op, sBool, a, b)
}

// resize converts a BV term to width w (sign- or zero-extending / truncating).
func (c *tctx) resize(a *term, w int, signed bool) *term {
	aw := a.s.width()
	if aw == w {
		return a
	}
	if a.isConst() {
		if w < aw {
			return c.konst(bvSort(w), a.cv)
		}
		if signed {
			return c.konst(bvSort(w), uint64(sext64(a.cv, aw)))
		}
		return c.konst(bvSort(w), a.cv)
	}
	if w < aw {
		return c.app(fmt.Sprintf("(_ extract %d 0)", w-1), bvSort(w), a)
	}
	if signed {
		return c.app(fmt.Sprintf("(_ sign_extend %d)", w-aw), bvSort(w), a)
	}
	return c.app(fmt.Sprintf("(_ zero_extend %d)", w-aw), bvSort(w), a)
}

// ---- floating point ----

func fpSort(w int) tsort {
	if w == 32 {
		return sF32
	}
	return sF64
}

func (c *tctx) fconst64(f float64) *term { return c.konst(sF64, math.Float64bits(f)) }
func (c *tctx) fconst32(f float32) *term { return c.konst(sF32, uint64(math.Float32bits(f))) }

func fval(t *term) float64 {
	if t.s == sF32 {
		return float64(math.Float32frombits(uint32(t.cv)))
	}
	return math.Float64frombits(t.cv)
}
func (c *tctx) fmk(s tsort, f float64) *term {
	if s == sF32 {
		return c.fconst32(float32(f))
	}
	return c.fconst64(f)
}

// fpbin: op in fp.add fp.sub fp.mul fp.div (RNE)
func (c *tctx) fpbin(op string, a, b *term) *term {
	if a.isConst() && b.isConst() {
		x, y := fval(a), fval(b)
		var r float64
		switch op {
		case "fp.add":
			r = x + y
		case "fp.sub":
			r = x - y
		case "fp.mul":
			r = x * y
		case "fp.div":
			r = x / y
		}
		if a.s == sF32 {
			return c.fconst32(float32(r)) // float32 ops round once from exact double for + - * / (double rounding is innocuous here)
		}
		return c.fconst64(r)
	}
	return c.app(op+" RNE", a.s, a, b)
}

// fpcmp: op in fp.eq fp.lt fp.leq fp.gt fp.geq
func (c *tctx) fpcmp(op string, a, b *term) *term {
	if a.isConst() && b.isConst() {
		x, y := fval(a), fval(b)
		var r bool
		switch op {
		case "fp.eq":
			r = x == y
		case "fp.lt":
			r = x < y
		case "fp.leq":
			r = x <= y
		case "fp.gt":
			r = x > y
		case "fp.geq":
			r = x >= y
		}
		return c.tbool(r)
	}
	return c.app(op, sBool, a, b)
}

func (c *tctx) fpun(op string, a *term) *term {
	if a.isConst() {
		x := fval(a)
		switch op {
		case "fp.neg":
			return c.fmk(a.s, -x)
		case "fp.abs":
			return c.fmk(a.s, math.Abs(x))
		}
	}
	return c.app(op, a.s, a)
}

func (c *tctx) fpIsNaN(a *term) *term {
	if a.isConst() {
		return c.tbool(math.IsNaN(fval(a)))
	}
	return c.app("fp.isNaN", sBool, a)
}
func (c *tctx) fpIsInf(a *term) *term {
	if a.isConst() {
		return c.tbool(math.IsInf(fval(a), 0))
	}
	return c.app("fp.isInfinite", sBool, a)
}

// bvToFp reinterprets an IEEE bit pattern as a float.
func (c *tctx) bvToFp(a *term) *term {
	if a.isConst() {
		if a.s == sBV32 {
			return c.konst(sF32, a.cv)
		}
		return c.konst(sF64, a.cv)
	}
	if a.s == sBV32 {
		return c.app("(_ to_fp 8 24)", sF32, a)
	}
	return c.app("(_ to_fp 11 53)", sF64, a)
}

// intToFp converts a (signed or unsigned) bit-vector to float with RNE.
func (c *tctx) intToFp(a *term, signed bool, dst tsort) *term {
	if a.isConst() {
		var f float64
		if signed {
			f = float64(sext64(a.cv, a.s.width()))
			if dst == sF32 {
				return c.fconst32(float32(sext64(a.cv, a.s.width())))
			}
		} else {
			f = float64(a.cv)
			if dst == sF32 {
				return c.fconst32(float32(a.cv))
			}
		}
		return c.fconst64(f)
	}
	idx := "11 53"
	if dst == sF32 {
		idx = "8 24"
	}
	if signed {
		return c.app("(_ to_fp "+idx+") RNE", dst, a)
	}
	return c.app("(_ to_fp_unsigned "+idx+") RNE", dst, a)
}

// fpToFp converts between float widths (RNE).
func (c *tctx) fpToFp(a *term, dst tsort) *term {
	if a.s == dst {
		return a
	}
	if a.isConst() {
		return c.fmk(dst, fval(a))
	}
	idx := "11 53"
	if dst == sF32 {
		idx = "8 24"
	}
	return c.app("(_ to_fp "+idx+") RNE", dst, a)
}

// fpToInt follows amd64 CVTTSD2SQ for signed 64-bit targets: NaN and
// out-of-range inputs yield 0x8000000000000000.  Narrower and unsigned
// targets are derived from the 64-bit result by truncation (what the gc
// compiler emits for them on amd64, except uint64 of values >= 2^63).
func (c *tctx) fpToInt(a *term, w int, signed bool) *term {
	if a.isConst() {
		f := fval(a)
		var r int64
		if f != f || f >= 9223372036854775808.0 || f < -9223372036854775808.0 {
			r = math.MinInt64
		} else {
			r = int64(f)
		}
		return c.konst(bvSort(w), uint64(r))
	}
	lim := c.fmk(a.s, 9223372036854775808.0)
	nlim := c.fmk(a.s, -9223372036854775808.0)
	inr := c.and(c.not(c.fpIsNaN(a)), c.and(c.fpcmp("fp.lt", a, lim), c.fpcmp("fp.geq", a, nlim)))
	conv := c.app("(_ fp.to_sbv 64) RTZ", sBV64, a)
	r := c.ite(inr, conv, c.konst(sBV64, 1<<63))
	return c.resize(r, w, true)
}

func (c *tctx) fpRound(mode string, a *term) *term {
	if a.isConst() {
		x := fval(a)
		switch mode {
		case "RTN":
			return c.fmk(a.s, math.Floor(x))
		case "RTP":
			return c.fmk(a.s, math.Ceil(x))
		case "RTZ":
			return c.fmk(a.s, math.Trunc(x))
		case "RNA":
			return c.fmk(a.s, math.Round(x))
		}
	}
	return c.app("fp.roundToIntegral "+mode, a.s, a)
}

// uf applies an uninterpreted function (functional consistency only).
func (c *tctx) ufApp(name string, res tsort, args ...*term) *term {
	if _, ok := c.ufs[name]; !ok {
		var sb strings.Builder
		sb.WriteString("(declare-fun " + name + " (")
		for i, a := range args {
			if i > 0 {
				sb.WriteByte(' ')
			}
			sb.WriteString(a.s.smt())
		}
		sb.WriteString(") " + res.smt() + ")")
		c.ufs[name] = sb.String()
	}
	t := c.app(name, res, args...)
	t.uf = true
	return t
}

// ---- printing ----

func (t *term) ref() string {
	switch t.op {
	case "var":
		return "|" + t.name + "|"
	case "const":
		switch t.s {
		case sBool:
			if t.cv == 1 {
				return "true"
			}
			return "false"
		case sF32:
			return fmt.Sprintf("((_ to_fp 8 24) #x%08x)", t.cv)
		case sF64:
			return fmt.Sprintf("((_ to_fp 11 53) #x%016x)", t.cv)
		default:
			return fmt.Sprintf("#x%0*x", t.s.width()/4, t.cv)
		}
	}
	return "t" + strconv.Itoa(t.id)
}

func (t *term) body() string {
	var sb strings.Builder
	sb.WriteByte('(')
	sb.WriteString(t.op)
	for _, a := range t.args {
		sb.WriteByte(' ')
		sb.WriteString(a.ref())
	}
	sb.WriteByte(')')
	return sb.String()
}

// emit writes the definitions of all not yet emitted nodes below t (post-order).
func emitDefs(sb *strings.Builder, t *term, done map[*term]bool, ctx *tctx, ufDone map[string]bool) {
	if done[t] {
		return
	}
	done[t] = true
	switch t.op {
	case "var":
		fmt.Fprintf(sb, "(declare-const %s %s)\n", t.ref(), t.s.smt())
		return
	case "const":
		return
	}
	for _, a := range t.args {
		emitDefs(sb, a, done, ctx, ufDone)
	}
	if t.uf && !ufDone[t.op] {
		ufDone[t.op] = true
		sb.WriteString(ctx.ufs[t.op])
		sb.WriteByte('\n')
	}
	fmt.Fprintf(sb, "(define-fun %s () %s %s)\n", t.ref(), t.s.smt(), t.body())
}

// String renders a term as a nested expression (for evidence samples; bounded size).
func (t *term) String() string {
	var sb strings.Builder
	t.str(&sb, 0)
	return sb.String()
}

func (t *term) str(sb *strings.Builder, depth int) {
	switch t.op {
	case "var":
		sb.WriteString(t.name)
		return
	case "const":
		switch t.s {
		case sBool:
			sb.WriteString(strconv.FormatBool(t.cv == 1))
		case sF32, sF64:
			sb.WriteString(strconv.FormatFloat(fval(t), 'g', -1, 64))
		default:
			sb.WriteString(strconv.FormatInt(sext64(t.cv, t.s.width()), 10))
		}
		return
	}
	if depth > 6 || sb.Len() > 400 {
		sb.WriteString("…")
		return
	}
	sb.WriteByte('(')
	sb.WriteString(t.op)
	for _, a := range t.args {
		sb.WriteByte(' ')
		a.str(sb, depth+1)
	}
	sb.WriteByte(')')
}

var _ = bits.Len64
