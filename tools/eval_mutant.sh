#!/bin/bash
# usage: eval_mutant.sh <PROP> <mdir> [demo dir]  -- confirm in a scratch worktree, then run the quick check with the patch applied
PROP=$1; M=$2
R=$(grep -l -i "\-race" $M/demo_test.go >/dev/null 2>&1 && echo 1)
RACE=${R:+1} /verif/tools/confirm_mutant.sh $PROP $M ${3:-} 2>&1 | grep CONFIRM
/verif/tools/try_mutant.sh $PROP $M/patch.diff quick 2>&1 | grep -E "^TRY|quick:|UNCONF|INCOMPLETE" | head -6 | cut -c1-260
git -C ${REPO:-/repo} status --short | head -3
