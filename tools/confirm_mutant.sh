#!/bin/bash
# usage: confirm_mutant.sh <PROP> <mdir>   e.g. confirm_mutant.sh C20 /tmp/mut/out/C20/m1
# Confirms in a scratch worktree: patch applies, builds, suite passes, demo fails with / passes without.
set -u
PROP=$1; M=$2
export GOFLAGS=-mod=mod GOPROXY=off
WT=/tmp/confirm-$$
git -C /repo worktree add -q --detach $WT HEAD || exit 9
cleanup() { git -C /repo worktree remove --force $WT >/dev/null 2>&1; }
trap cleanup EXIT
cd $WT
DEST=$(grep -m1 -o -E '(copy|copied|Copy|place|Place|put|run)[^\n]*' $M/demo_test.go | head -1)
PKG=$(grep -m1 '^package ' $M/demo_test.go | awk '{print $2}')
# destination directory: from meta or by package name
case "$PKG" in
  value_test|value) D=value;; export_test|export) D=value/export;; parser2_test|parser2) D=.;; funcGen_test|funcGen) D=funcGen;; listMap_test) D=listMap;; example_test|example) D=example;; *) D=value;;
esac
if [ -n "${3:-}" ]; then D=$3; fi
TESTS=$(grep -o -E '^func (Test[A-Za-z0-9_]+)' $M/demo_test.go | awk '{print $2}' | paste -sd'|')
git apply $M/patch.diff || { echo "CONFIRM $PROP $M: patch does not apply"; exit 1; }
go build ./... || { echo "CONFIRM $PROP $M: does not build"; exit 1; }
if ! go test -vet=off -count=1 ./... >/tmp/confirm-suite.log 2>&1; then echo "CONFIRM $PROP $M: suite FAILS with the change"; tail -5 /tmp/confirm-suite.log; exit 1; fi
cp $M/demo_test.go $D/zz_demo_test.go
if timeout 600 go test ${RACE:+-race} -vet=off -count=1 -run "^($TESTS)\$" ./$D/ >/tmp/confirm-with.log 2>&1; then echo "CONFIRM $PROP $M: demo PASSES with the change (bad)"; exit 1; fi
rm $D/zz_demo_test.go
git checkout -q -- .
cp $M/demo_test.go $D/zz_demo_test.go
if ! timeout 600 go test ${RACE:+-race} -vet=off -count=1 -run "^($TESTS)\$" ./$D/ >/tmp/confirm-without.log 2>&1; then echo "CONFIRM $PROP $M: demo FAILS without the change (bad)"; tail -5 /tmp/confirm-without.log; exit 1; fi
echo "CONFIRM $PROP $M: OK (applies, builds, suite passes, demo fails with / passes without; demo dir $D)"
