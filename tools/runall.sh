#!/bin/bash
# usage: tools/runall.sh [quick|thorough] [ids...]   runs the registered checks one after the other and summarises
# env: VERIF_DIR (default /verif), WORKERS (default 16)
TIER=${1:-quick}; shift
V=${VERIF_DIR:-/verif}
IDS=${@:-$(python3 -c "import json;print(' '.join(c['property_id'] for c in json.load(open('$V/MANIFEST.json'))['checks']))")}
cd $V
mkdir -p $V/runlogs
for id in $IDS; do
  s=$(date +%s)
  ./bin/verifctl check $id --tier $TIER --workers ${WORKERS:-16} > $V/runlogs/$TIER-$id.log 2>&1
  rc=$?
  e=$(date +%s)
  echo "$id rc=$rc $((e-s))s $(grep -c '^VIOLATION' $V/runlogs/$TIER-$id.log) violations, $(grep -c '^KNOWN-FINDING' $V/runlogs/$TIER-$id.log) known, $(grep -c '^INCOMPLETE' $V/runlogs/$TIER-$id.log) incomplete | $(tail -n 1 $V/runlogs/$TIER-$id.log | cut -c1-220)"
done
