#!/bin/bash
# usage: tools/runall.sh [quick|thorough] [ids...]   runs the registered checks one after the other and summarises
TIER=${1:-quick}; shift
IDS=${@:-$(python3 -c "import json;print(' '.join(c['property_id'] for c in json.load(open('/verif/MANIFEST.json'))['checks']))")}
cd /verif
for id in $IDS; do
  s=$(date +%s)
  ./bin/verifctl check $id --tier $TIER > /tmp/runall-$TIER-$id.log 2>&1
  rc=$?
  e=$(date +%s)
  echo "$id rc=$rc $((e-s))s $(grep -c '^VIOLATION' /tmp/runall-$TIER-$id.log) violations, $(grep -c '^KNOWN-FINDING' /tmp/runall-$TIER-$id.log) known, $(grep -c '^INCOMPLETE' /tmp/runall-$TIER-$id.log) incomplete | $(tail -1 /tmp/runall-$TIER-$id.log | cut -c1-220)"
done
