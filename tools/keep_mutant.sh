#!/bin/bash
# usage: keep_mutant.sh <PROP> <mdir> <name> <caught: yes|no|after-strengthening> "<what ran>"
PROP=$1; M=$2; NAME=$3; CAUGHT=$4; RAN=$5
D=/verif/seeded/$PROP-$NAME
mkdir -p $D
cp $M/patch.diff $M/demo_test.go $D/
python3 - "$M/meta.json" "$D/meta.json" "$PROP" "$CAUGHT" "$RAN" <<'PY'
import json,sys
src,dst,prop,caught,ran=sys.argv[1:6]
try: m=json.load(open(src))
except Exception: m={}
out={"property":prop,"summary":m.get("summary",""),"needs":m.get("needs",""),
     "author_ran":m.get("ran",""),
     "confirmed_by_me":"tools/confirm_mutant.sh in a scratch worktree: patch applies, go build ok, full suite passes with the change, demo fails with it and passes without it",
     "check_result":caught,"check_ran":ran}
json.dump(out,open(dst,"w"),indent=1)
PY
echo kept $D
