#!/usr/bin/env python3
"""Regenerates /verif/MANIFEST.json from the table below (kept next to the code so that
claims, bounds and not-applicable reasons are edited in one place)."""
import json, os

TECH = "bounded symbolic execution of go/ssa (own engine symgo) + SMT (z3 5.1/4.8, cvc5), native replay of every model"

# id -> (level category, what the check gives, trusted base / bounds)
CLAIMS = {
 "C01": ("translation_validation",
   "Every program of three families is compiled by value.New().Generate and evaluated on three SYMBOLIC 64-bit int arguments; an independent reference (own parser for the language subset, lexically scoped tree-walking evaluator with closure capture, left-to-right call-by-value) runs on the same symbolic arguments inside the same engine; the outcomes must agree for every argument value on every path (error in both or deep-equal value: numbers by kind and value, lists by element sequence, maps by key/value set). Families: the binder x slot x context matrix (9 binder kinds incl. let/func/closure/if/switch/try/currying/map-field closure in 16 let-position slots incl. 1st/2nd/3rd call argument, method argument, list element, map value, static function argument, closure body, in 6 nesting contexts incl. nested closures, recursive func, captured outer local), 30 hand-written programs (recursion, currying, closures returned from functions and stored in maps, shadowing of arguments/constants by parameters), seeded random programs (60 quick / 1500 thorough).",
   "single operators, methods, static functions and index/member access on already evaluated operands are delegated by the reference to the library through one-operation programs (their meaning is C14/C07's subject); argument values: ints only (floats/strings/lists appear as program-internal values); program size bounded by the templates; error message texts are not compared"),
 "C02": ("translation_validation",
   "Every program of a constant-rich pool (chains mixing constants and variables for every operator incl. the commutative ones, string + chains, constant closures/lists/maps, if/switch with constant conditions, try, let-constants, counted pure and impure host functions) plus a sample of the C01 matrix with one argument replaced by a constant and seeded random programs is generated twice - value.New() as is and with SetOptimizer(nil) - and both functions are evaluated on the same SYMBOLIC arguments (ints; bools, integer-valued floats, pool strings as wrong-typed variants): equal outcome for every value (error in both or deep-equal), impure host function counters zero after Generate, equal after Eval and repeated exactly by a second Eval.",
   "float chains only on integer-valued operands |x|<2^15 (regrouping is then exact; the property allows rounding differences otherwise); number-to-text conversions use pool values; the float/bool instantiations of the generic generator are C19's subject"),
 "C03": ("model_checking",
   "For 8 operator tables (prefix operator at lowest/middle/highest binary position or pure, spellings that are prefixes of one another, text aliases) the implementation's Parse is compared with an independent precedence-climbing reference parser on EVERY input string of up to 2-3 (thorough: 4-5) bytes over the table's alphabet (symbolic bytes, solver-decided), on all operator/prefix/parenthesis assignments of 3-operand skeletons (path enumeration) and on single-byte deletions/duplications/truncations of valid programs: error iff the reference rejects, identical AST otherwise, never a panic.",
   "bounded input length and table set; comfort mode, comments, keywords and string literals are outside this check (C15/C04); reference parser and lexer are part of the trusted base; ASCII alphabets"),
 "C04": ("model_checking",
   "Parse (generic Parser[int] without/with comments+comfort+keywords) and value.New().Generate are executed on N symbolic bytes ranging over all 256 values each (N<=2 quick, <=3 thorough; unicode classes as range-set formulas), on valid programs with one (thorough: two) symbolic byte overwritten/inserted at every position, on every truncation, and on concrete deep-nesting/unterminated inputs: every path ends with AST xor error, no panic escapes, every path stays within the step budget (termination).",
   "inputs longer than the bound, stack exhaustion by deep nesting and the 64 KiB end of the quantifier are outside the claim; 'linear-ish time' is checked only as a step budget of 3M SSA instructions on these short inputs"),
 "C07": ("model_checking",
   "55 built-in cases (map, accept, reduce, mapReduce, sum, size, first, last, single, top, skip, reverse, set, append, index, indexWhere, present, combine, combine3, combineN, number, compact, cross, merge, +, iir, iirCombine, visit, fsm, min, max, minMax, mean, ~, numeric functions abs/sign/sqr/int/float/%/round, 8 kinds of misuse) applied to receiver lists of 0..3 (thorough 5) SYMBOLIC 64-bit ints, a second symbolic list and a symbolic numeric argument a in [-2,6] (indices, counts incl. 0, negatives and values beyond the size): the outcome equals an independent eager reference over Go slices for every value (defined exactly when the model is, deep-equal result); order/orderRev/orderLess are checked as sorted permutations, groupBy*/uniqueInt as partitions with distinct keys (any group order); string methods (cut with symbolic position/length, len, case, trim, contains, indexOf, replace, split, ~, toInt, toFloat, misuse) on a unicode pool of concrete receivers.",
   "list length bound; callbacks from a fixed pool; ties in minMax/min/max may resolve to any tied item; mean only checked for definedness (float rounding); movingWindow only on lists of <=1 (thorough 2) elements; transcendental functions, sprintf, createInterpolation/linearReg/bisection/createLowPass not covered"),
 "C08": ("model_checking",
   "35 pipelines source -> lazy stages -> short-circuit consumer (first, top(k), present, indexWhere, ~, single, skip+first, accept, combine/combine3/combineN, number, +, iir, compact, multiUse of those, merge; sources numbers(n), literal lists, evaluated/ordered/reversed lists) with a counting host function inside the stage closures: the source length n is SYMBOLIC and only assumed > 40 (so 10^11 is one of its values), the decisive position k symbolic in 0..6, the position f of a failing element symbolic in 0..12. Per path: the number of closure calls at return and again at quiescence (after all goroutines have been run, runaway ones preemptively) is at most the documented demand (first 1, top(k) k+1, present/indexWhere/~ k+2, single 3, combine 3, ..., unconsumed pipelines 0); an error of an element behind the demanded prefix does not surface; every path finishes within 4M SSA steps although n is unbounded.",
   "read-ahead in forced-parallel mode is outside (sequential clock); bounds are the ones observed on the pinned tree plus the read-ahead of one the property grants; known finding: merge producers of the iterator dependency"),
 "C09": ("model_checking",
   "Histories of 2 (thorough 3) operations over a pool of live handles: every operation (append, append twice, set, reverse, + on either side, top, skip, map, order, first as partial consumption, eval; for maps put, put twice, replace, +, eval, map, accept) is a one-operation generated function applied to a chosen existing handle; a purely functional model of symbolic values says what each handle must contain; after the history (and in a second mode after every step) every handle is observed through the public API (ToSlice, Size, Get, Iter): size, elements/keys and values must equal the model for EVERY element value (symbolic 64-bit ints). Enumerated by sym.Choice: operations, parent of each step, representation of the host-supplied parent (literal with 0..3 spare capacity in its backing array, lazily produced, produced by append), observation mode. Plus 9 programs binding lists/maps to names (constant-folded, lazily produced, ordered) whose three evaluations are compared with the reference evaluator.",
   "list length 2 at creation, history length bound, key pool of 4; spec-level capacities beyond the real runtime's growth policy are not explored (the engine uses the runtime's own append growth for 16-byte elements)"),
 "C10": ("model_checking",
   "22 programs (constants that are lazy lists, ordered/appended lists, maps, closures, recursion, try, switch, nested pipelines) evaluated in six sequence patterns chosen by sym.Choice - f(x) f(y) f(x); f(x), failing evaluations with wrong-typed and too few arguments, f(x); f(x), half-consumed f(y), f(x); f(x), other Generate calls (valid, syntactically invalid, the same program again) and evaluations on the same generator, f(x); f(y) f(y) f(x) f(x); dropped result - with two independent SYMBOLIC argument tuples x and y: every evaluation equals the first evaluation with the same tuple (self-composition) and the reference evaluator, lazy results of early evaluations being forced only after all later evaluations.",
   "sequence length <= 5; arguments are ints (first one in 0..7 where it is used structurally); random programs only in the thorough tier"),
 "C12": ("model_checking",
   "Quiescence monitor of the engine's deterministic scheduler: after Parse/Generate/Eval returned, all goroutines are run to completion; a goroutine that stays blocked or is still running after 2M steps is a leak. Inputs: every way parsing can stop (N<=1/2 symbolic bytes, all truncations of 4 programs, byte mutations) and 10 pipelines with early-stopping consumers/failing elements over an effectively unbounded source with a symbolic argument. Counterexamples are confirmed natively by goroutine counts after a grace period.",
   "one call per path (accumulation over thousands of calls follows from one leaked goroutine per call); schedules: the deterministic baton schedule only; known finding: merge producers of the read-only iterator dependency"),
 "C13": ("model_checking",
   "Histories of 2 (thorough 3) map operations chosen by sym.Choice over live handles - put of a new and of an existing key, + with a disjoint and with an overlapping map, put combined with +, replace with keys inside, outside and mixed, replace chains of 12 (crossing the depth-10 flattening), + with 21 keys (crossing the 20-key hash-map branch), eval, map, accept - starting from four representations (literal, put, +, replaced and evaluated); a Go-map model of symbolic 64-bit values says what each handle contains. Every handle is then seen through ALL observers, each of which must agree with the model for every value: member access, get, isAvail, ~, size, list(), string() (entry set), iteration (each key once), accept, = against an independently built map in both directions and against changed/larger ones, JSON export key set, and the Go API (Get, Size, Iter). Duplicate put and overlapping merge must fail.",
   "history length and key pool bounded; struct/function wrappers only via C17's funcmap shape; string() is checked as an entry set with values replaced by 0 (number formatting is not modelled symbolically)"),
 "C14": ("model_checking",
   "Each law of the statement is one solver obligation per kind pattern through the real Generate/Eval code: symmetry/reflexivity of =, Int/Float by numeric value (independent integer formulation), irreflexive/asymmetric/transitive < on all eight Int/Float patterns and strings, != > <= >= consistent with = and <, incomparable operands give errors for all six operators, ~ iff some element equal, min/max/order/switch agree; element-wise lists, key-wise maps in two representations, nested containers. Payloads symbolic: ints |x|<2^53, every float64 incl. NaN/+-0/Inf, strings of 2 symbolic bytes.",
   "kind patterns and container shapes (<=3 entries, nested once) are enumerated; strings longer than 2 bytes only via the concrete pool"),
 "C15": ("model_checking",
   "Parser[string] with comments enabled (comfort on/off): for 4 programs (operators, calls, index, member, method, closure, string, quoted identifier, float) the separator between one pair of adjacent tokens is SYMBOLIC - kind by sym.Choice (nothing where punctuation allows, two blanks, line comment, tight block comment, spaced block comment followed by a line comment) with symbolic contents over {blank TAB CR LF} resp. {x * / quote apostrophe LF} - all other separators one blank: the AST equals the one of the canonical and of the one-token-per-line layout, every node reports the line of its anchor token (1 + number of LF bytes before it, the anchor taken from the one-token-per-line parse), a syntax error behind the program reports the line of the offending token; string literals of n<=2 (thorough 3) symbolic runes over all of Unicode written with the escapes \\ \" \n \r \t denote exactly that string, quoted identifiers their content; the typographic aliases and superscripts equal their ASCII spelling; comfort-mode juxtapositions number/identifier/')' x number/identifier/'(' in four contexts equal the explicit product, identifier+'(' stays a call.",
   "one symbolic separator per job (two in none); separator contents of 2 bytes; the layout oracle for 'no separator' is restricted to pairs with punctuation on one side; keywords (let/if/...) layouts are not varied"),
 "C16": ("translation_validation",
   "34 programs whose free identifiers x, y, z, f (f holds a closure) are attributes - at top level, inside 1..3 nested closures, recursive and nested funcs, lets inside call arguments and list elements, curried closures, list pipelines; attributes shadowed by closure parameters, lets, func parameters and constants (pi), next to static functions and to explicit uses of the map name m - are parsed by the harness's own parser, every free identifier is rewritten to m.<name> and the program printed as exp'; GenerateWithMap(exp,\"m\") and Generate(exp',\"m\") are evaluated on the same argument map with SYMBOLIC attribute values in five representations (literal, put chain, merged, replaced, evaluated): both generate or neither, equal outcome for every value.",
   "program pool fixed; attribute values ints (x in 0..5) and one closure; the rewriting oracle knows the static functions it uses by name"),
 "C17": ("model_checking",
   "The bytes written by export.JSON() for value trees containing strings/keys of n symbolic runes (every Unicode scalar value; n<=2 quick, <=3 thorough) are read by a strict RFC 8259 reference reader executed on the symbolic output: the document is valid and decodes to the expected structure (arrays in order, objects as key sets, scalars as the JSON string of their string form). Trees: scalar, list, key, value, two symbolic keys (sorting), lazy lists, nested, mixed concrete scalars, maps in merged/replaced/mapped/accepted representation.",
   "string length bound; numbers/bools concrete; reference reader trusted (cross-checked against encoding/json natively on every replay)"),
 "C19": ("translation_validation",
   "Generators built through the public funcGen.New[bool]/New[float64] API as example/bool.go and example/minimal.go configure them (keywords let/if added), optimizer enabled and disabled: EVERY boolean expression with at most 2 (thorough 3) operator nodes over {a,b,c,true,false} with ^ = | & ! (4.4k / 225k expressions; rendered alternately fully parenthesised and with minimal parentheses so that the declared priorities decide) is evaluated on SYMBOLIC a,b,c (all 8 assignments at once) against direct evaluation of the harness's own tree, with three permutations of the commutative flags; every float expression with at most 2 operator nodes over {a,b,2,0.5,4} with = < > + - * / ^, unary -, sqr(), implicit multiplication on a 4x4 grid of exactly representable operands (path enumeration); let/if forms and the regrouping shapes c1 op (c2 op x), (x op c1) op c2 for both types with symbolic operands (floats k/4, |k|<16, decided by cvc5).",
   "expression size bound; float batch jobs are enumerated on a concrete grid (the solver decides only the 'forms' jobs); functions other than sqr/sqrt not varied; the exhaustive 4-node boolean space is outside"),
 "C20": ("model_checking",
   "binning/binning2d/collectBinning through the public language API: element positions and start symbolic on the exact grid {k/16, |k|<2^24}, sizes {1/4,1/2,1,3,10}, counts 0..5 (thorough to 30): the bin that received the element satisfies the documented interval law (solver, cvc5), exactly one bin, descriptions equal the interval ends, power-of-two weights show mass conservation and element-wise placement, collectBinning over every 2-splitting equals the whole; far range: start 0,size 1 and EVERY finite float64.",
   "off-grid inputs where (x-start)/size rounds, NaN, size<=0 are outside; list length <=2 quick/<=4 thorough"),
}

NA = {
}
PENDING = "check not yet built in this session (engine exists; harness under construction)"

ALL = ["C%02d" % i for i in range(1, 21)]

checks = []
for pid in ALL:
    if pid in CLAIMS:
        cat, text, note = CLAIMS[pid]
        checks.append({
            "property_id": pid,
            "quick_cmd": "./bin/verifctl check %s --tier quick" % pid,
            "thorough_cmd": "./bin/verifctl check %s --tier thorough" % pid,
            "evidence_file": "/verif/evidence/%s.json" % pid,
            "replay_cmd_template": "./bin/verifctl replay {path}",
            "engine": "symgo",
            "level_claimed": {"category": cat, "text": text, "design_ref": "DESIGN.md §6 " + pid},
            "level_note": note,
            "technique": TECH,
        })
na = [{"property_id": p, "reason": NA.get(p, PENDING)} for p in ALL if p not in CLAIMS]
m = {
 "version": 1,
 "setup_cmd": "./build.sh",
 "hooks": {"guard": "verif",
           "enable": "none needed: the engine executes the unmodified sources of /repo's working tree (go/packages + go/ssa); there are no hook commits",
           "baseline_off_cmd": "cd /repo && go test -mod=mod -vet=off -count=1 ./...",
           "source_commits": [], "add_only": True},
 "engines": [{"name": "symgo", "path": "engine/", "serves_properties": sorted(CLAIMS.keys()),
              "kind_free_text": "symbolic executor for Go SSA (fork of x/tools go/ssa/interp v0.50.0): symbolic scalars and string bytes as SMT terms, path exploration by re-execution, own deterministic goroutine scheduler, monitors (panic escape, quiescence/leak, frozen heap, happens-before); solvers z3 5.1.0/4.8.12 and cvc5 1.0.3 over SMT-LIB2 pipes; every counterexample is replayed against the native build of /repo"}],
 "checks": checks,
 "not_applicable": na,
 "notes": "Exit codes of every check: 0 = all obligations within the bounds discharged (KNOWN-FINDING lines allowed); 1 = at least one natively confirmed counterexample not listed in known_findings.json (VIOLATION lines); 3 = something was not decided (INCOMPLETE lines). See DESIGN.md."
}
json.dump(m, open(os.path.join(os.path.dirname(__file__), "..", "MANIFEST.json"), "w"), indent=1)
print("claimed:", sorted(CLAIMS.keys()))
