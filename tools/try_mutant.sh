#!/bin/bash
# usage: try_mutant.sh <PROP> <patch.diff> [tier]   applies the patch to the repository, runs the check, reverts.
# env: REPO (default /repo), VERIF_DIR (default /verif) - a snapshot pair lets evaluations run beside development
PROP=$1; P=$2; TIER=${3:-quick}
REPO=${REPO:-/repo}; V=${VERIF_DIR:-/verif}
cd $REPO && git apply $P || { echo "patch does not apply to $REPO"; exit 9; }
cd $V && VERIF_DIR=$V timeout 3000 ./bin/verifctl check $PROP --tier $TIER --workers ${WORKERS:-16} > /tmp/try-$PROP-$$.log 2>&1; RC=$?
git -C $REPO checkout -- . ; git -C $REPO clean -fdq
echo "TRY $PROP $P: exit=$RC violations=$(grep -c '^VIOLATION' /tmp/try-$PROP-$$.log)"; grep -a -A1 '^VIOLATION' /tmp/try-$PROP-$$.log | head -6 | cut -c1-300; grep -a '^INCOMPLETE' /tmp/try-$PROP-$$.log | head -3 | cut -c1-300; tail -n 1 /tmp/try-$PROP-$$.log | cut -c1-300
cp /tmp/try-$PROP-$$.log /tmp/try-$PROP.log; rm -f /tmp/try-$PROP-$$.log
