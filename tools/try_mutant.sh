#!/bin/bash
# usage: try_mutant.sh <PROP> <patch.diff> [tier]   applies the patch to /repo, runs the check, reverts.
PROP=$1; P=$2; TIER=${3:-quick}
cd /repo && git apply $P || { echo "patch does not apply to /repo"; exit 9; }
cd /verif && timeout 3000 ./bin/verifctl check $PROP --tier $TIER > /tmp/try-$PROP.log 2>&1; RC=$?
git -C /repo checkout -- . ; git -C /repo clean -fdq
echo "TRY $PROP $P: exit=$RC violations=$(grep -c '^VIOLATION' /tmp/try-$PROP.log)"; grep -a -A1 '^VIOLATION' /tmp/try-$PROP.log | head -6 | cut -c1-300; grep -a '^INCOMPLETE' /tmp/try-$PROP.log | head -3 | cut -c1-300; tail -1 /tmp/try-$PROP.log | cut -c1-300
