#!/bin/sh
# Builds the engine (symgo, go1.26.8 + x/tools v0.50.0) and the native harness twin, offline.
set -e
cd "$(dirname "$0")"
mkdir -p bin evidence replays
(cd engine && GOFLAGS=-mod=mod GOPROXY=off GOSUMDB=off GOTOOLCHAIN=local PATH=/opt/veriftools/go1.26.8/bin:$PATH go build -o ../bin/verifctl ./cmd/verifctl)
(cd harness && GOFLAGS=-mod=mod GOPROXY=off go build -o ../bin/native ./cmd/native)
